"""Shared infrastructure of the konst runtime-monitoring checks (DESIGN.md §3, §10).

Verdicts are three-valued:
  exit 0  held on everything observed (KNOWN-FINDING lines allowed)
  exit 1  at least one `VIOLATION property=<id> replay=<path>` line
  exit 2  `INCONCLUSIVE property=<id> reason=...` (build/tool failure, watchdog) - never a violation
"""
import hashlib
import json
import os
import re
import shutil
import signal
import subprocess
import sys
import time
from concurrent.futures import ThreadPoolExecutor

VERIF = os.path.dirname(os.path.dirname(os.path.abspath(__file__)))
REPO = "/repo"
HARNESS = os.path.join(VERIF, "harness")
TARGET = os.path.join(VERIF, "target")
WORK = os.path.join(VERIF, "work")
# development runs against deliberately broken trees redirect their output (tools/try_seed.sh)
EVID = os.environ.get("KV_EVIDENCE_DIR") or os.path.join(VERIF, "evidence")
REPLAY = os.environ.get("KV_REPLAY_DIR") or os.path.join(VERIF, "replay")
KNOWN_FILE = os.path.join(VERIF, "KNOWN_FINDINGS.txt")
NCPU = os.cpu_count() or 4

ENV = dict(os.environ)
ENV.update({"CARGO_NET_OFFLINE": "true", "RUST_BACKTRACE": "0", "CARGO_TERM_COLOR": "never"})
ENV.pop("RUSTFLAGS", None)


class Inconclusive(Exception):
    pass


def log(*a):
    print(*a, file=sys.stderr, flush=True)


def sh(cmd, cwd=None, env=None, timeout=None, stdin=None):
    """run, return (rc, stdout, stderr); rc < 0 = killed by signal; rc = None = watchdog fired"""
    e = dict(ENV)
    if env:
        e.update(env)
    try:
        p = subprocess.run(cmd, cwd=cwd, env=e, stdout=subprocess.PIPE, stderr=subprocess.PIPE, timeout=timeout, input=stdin, text=True, errors="replace")
        return p.returncode, p.stdout, p.stderr
    except subprocess.TimeoutExpired as ex:
        out = ex.stdout.decode(errors="replace") if isinstance(ex.stdout, bytes) else (ex.stdout or "")
        err = ex.stderr.decode(errors="replace") if isinstance(ex.stderr, bytes) else (ex.stderr or "")
        return None, out, err


# --------------------------------------------------------------------------- builds

VARIANTS = {
    # name: (release?, konst `debug` feature?)
    "rel": (True, False),
    "dbg": (False, False),
    "rel+d": (True, True),
    "dbg+d": (False, True),
}


def cargo_build(variant, want_json=False, nightly=False):
    """Build the harness variant against /repo's current working tree. Returns the binary path
    (and, with want_json, the list of compiler artifacts)."""
    rel, dbgfeat = VARIANTS[variant]
    cmd = ["cargo"] + (["+nightly"] if nightly else []) + ["build", "--offline", "--manifest-path", os.path.join(HARNESS, "Cargo.toml")]
    if rel:
        cmd.append("--release")
    if dbgfeat:
        cmd += ["--features", "konst_debug"]
    if want_json:
        cmd += ["--message-format=json"]
    # rlibs are only usable by the rustc that produced them: nightly builds get their own target dir
    # the feature variants get their own target dir too: same profile = same binary path otherwise
    tdir = os.path.join(TARGET, "hn" if nightly else ("hd" if dbgfeat else "h"))
    rc, out, err = sh(cmd, env={"CARGO_TARGET_DIR": tdir}, timeout=1800)
    if rc != 0:
        raise Inconclusive("harness variant %s does not build against the current tree: %s" % (variant, (err or out)[-1500:].replace("\n", " | ")))
    binp = os.path.join(tdir, "release" if rel else "debug", "kv_harness")
    if want_json:
        arts = []
        for line in out.splitlines():
            if line.startswith("{"):
                try:
                    j = json.loads(line)
                except ValueError:
                    continue
                if j.get("reason") == "compiler-artifact":
                    arts.append(j)
        return binp, arts
    return binp


def build_all(variants):
    # sequential: cargo serialises on the target-dir lock anyway
    return {v: cargo_build(v) for v in variants}


def konst_rlibs(variant="dbg", nightly=False):
    """(path of libkonst rlib, deps dir) as built for the harness variant - generated programs are
    compiled directly against them with rustc (DESIGN.md §2/E4)."""
    _, arts = cargo_build(variant, want_json=True, nightly=nightly)
    konst = None
    for a in arts:
        if a.get("target", {}).get("name") == "konst" and "lib" in a.get("target", {}).get("kind", []):
            for f in a.get("filenames", []):
                if f.endswith(".rlib"):
                    konst = f
    if not konst:
        raise Inconclusive("could not locate the konst rlib in cargo's output")
    return konst, os.path.dirname(konst)


# --------------------------------------------------------------------------- harness runs

CRASH_SIGNALS = {signal.SIGABRT, signal.SIGSEGV, signal.SIGBUS, signal.SIGILL, signal.SIGFPE}


def run_harness(binp, sub, tier, seed, variant, shard=None, timeout=3600, extra_env=None, threads=None):
    """Run one harness process; returns its parsed JSON summary.
    A process that dies on a fatal signal while monitoring is re-run single-threaded with tracing to
    name the case; if it dies again this is reported as a crash observation (dict with 'crash')."""
    os.makedirs(WORK, exist_ok=True)
    tag = "%s-%s-%s%s" % (sub, variant, tier, ("-%d_%d" % shard) if shard else "")
    outp = os.path.join(WORK, "h-%s-%d.json" % (tag, os.getpid()))
    cmd = [binp, sub, "--tier", tier, "--seed", str(seed), "--out", outp]
    if shard:
        cmd += ["--shard", "%d/%d" % shard]
    if threads:
        cmd += ["--threads", str(threads)]
    if os.path.exists(outp):
        os.remove(outp)
    rc, out, err = sh(cmd, timeout=timeout, env=extra_env)
    if rc is None:
        raise Inconclusive("watchdog: harness %s did not finish within %ds" % (tag, timeout))
    if rc == 0 and os.path.exists(outp):
        with open(outp) as f:
            j = json.load(f)
        os.remove(outp)
        j["variant"] = variant
        j["engine"] = "native"
        j["cmd"] = " ".join(cmd)
        return j
    if rc is not None and rc < 0 and -rc in {int(s) for s in CRASH_SIGNALS}:
        # re-run with tracing, single thread, to name the case
        e = {"KV_TRACE": "1"}
        if extra_env:
            e.update(extra_env)
        rc2, out2, err2 = sh(cmd + ["--threads", "1"], timeout=timeout * 4, env=e)
        last = [l for l in (err2 or "").splitlines() if l.startswith("TRACE")]
        if rc2 is not None and rc2 < 0:
            return {"crash": True, "signal": -rc2, "variant": variant, "engine": "native", "sub": sub, "cmd": " ".join(cmd),
                    "last_case": last[-1] if last else "(unknown)", "stderr_tail": (err2 or "")[-800:]}
        # memory corruption often only bites with the original thread schedule: repeat the original command
        again = 0
        for _ in range(3):
            rc3, _o3, err3 = sh(cmd, timeout=timeout, env=extra_env)
            if rc3 is not None and rc3 < 0 and -rc3 in {int(s) for s in CRASH_SIGNALS}:
                again += 1
                if again >= 2:
                    return {"crash": True, "signal": -rc3, "variant": variant, "engine": "native", "sub": sub, "cmd": " ".join(cmd),
                            "last_case": "(multi-threaded run of `%s`; killed by a fatal signal in 3 of at most 4 runs, not in the single-threaded traced run)" % " ".join(cmd[1:cmd.index("--out")]), "stderr_tail": (err3 or "")[-800:]}
        # a crash that does not repeat decides nothing: the other engines of the check still run, and the
        # check ends INCONCLUSIVE unless one of them reports a violation
        return {"flaky_crash": True, "signal": -rc, "variant": variant, "engine": "native", "sub": sub, "cmd": " ".join(cmd),
                "reason": "harness %s died with signal %d (%d of 4 multi-threaded runs) and did not reproduce single-threaded" % (tag, -rc, 1 + again)}
    # an uncaught panic of the harness itself (exit 101) or another non-zero status decides nothing about konst;
    # like a crash that does not repeat it only defers an INCONCLUSIVE verdict until the other engines have run
    return {"flaky_crash": True, "signal": 0, "variant": variant, "engine": "native", "sub": sub, "cmd": " ".join(cmd),
            "reason": "harness %s exited with status %s: %s" % (tag, rc, (err or "")[-600:].replace("\n", " | "))}


def run_many(jobs, workers=None):
    """jobs: list of zero-arg callables; run in a thread pool (each spawns a subprocess)."""
    with ThreadPoolExecutor(max_workers=workers or NCPU) as ex:
        futs = [ex.submit(j) for j in jobs]
        res = []
        for f in futs:
            res.append(f.result())
        return res


# --------------------------------------------------------------------------- Miri

# c11 drives array::map!/from_fn! closures that panic or leave early: those macros document that they
# leak the already-written elements on such paths (and the property exempts them), so the leak
# checker is off for that sub-command only.
MIRI_IGNORE_LEAKS = {"c11"}
MIRI_UB_RE = re.compile(r"error: Undefined Behavior: (.*)")


def miri_build():
    """Build the harness for Miri once (cargo miri run with --help-like no-op is not available, so
    the first shard builds; this just makes sure the sysroot and deps are there)."""
    rc, out, err = sh(["cargo", "+nightly", "miri", "setup"], cwd=HARNESS, timeout=1800, env={"CARGO_TARGET_DIR": os.path.join(TARGET, "miri")})
    if rc != 0:
        raise Inconclusive("cargo miri setup failed: %s" % (err or out)[-600:].replace("\n", " | "))


def miri_locate_runner():
    """After one `cargo miri run`, later shards call the miri driver through cargo again (cargo
    re-checks freshness, cheap)."""
    return None


def run_miri(sub, tier, seed, shard, tree_borrows=False, timeout=3600, raw_drops=True):
    """One Miri shard. Returns dict(engine, json or None, ub: [messages], rc)."""
    os.makedirs(WORK, exist_ok=True)
    tag = "%s-miri%s-%s-%d_%d" % (sub, "tb" if tree_borrows else "sb", tier, shard[0], shard[1])
    outp = os.path.join(WORK, "m-%s-%d.json" % (tag, os.getpid()))
    if os.path.exists(outp):
        os.remove(outp)
    flags = "-Zmiri-disable-isolation"
    if sub in MIRI_IGNORE_LEAKS:
        flags += " -Zmiri-ignore-leaks"
    if tree_borrows:
        flags += " -Zmiri-tree-borrows"
    cmd = ["cargo", "+nightly", "miri", "run", "--offline", "-q", "--manifest-path", os.path.join(HARNESS, "Cargo.toml"), "--",
           sub, "--tier", tier, "--seed", str(seed), "--shard", "%d/%d" % shard, "--threads", "1", "--out", outp]
    rc, out, err = sh(cmd, timeout=timeout, env={"MIRIFLAGS": flags, "CARGO_TARGET_DIR": os.path.join(TARGET, "miri")})
    res = {"engine": "miri-tb" if tree_borrows else "miri-sb", "sub": sub, "shard": "%d/%d" % shard, "rc": rc, "ub": [], "json": None, "cmd": "MIRIFLAGS='%s' %s" % (flags, " ".join(cmd))}
    if rc is None:
        raise Inconclusive("watchdog: miri shard %s did not finish within %ds" % (tag, timeout))
    ub = MIRI_UB_RE.findall(err or "")
    if ub:
        # keep the message and the first in-repo frame *of the report* (build warnings precede it)
        tail = (err or "")[(err or "").find("error: Undefined Behavior"):]
        frames = re.findall(r"(/repo/[^\s:]+:\d+)", tail)
        res["ub"] = [{"message": ub[0], "frame": frames[0] if frames else "", "stderr_tail": (err or "")[-1500:]}]
        return res
    if "memory leaked" in (err or ""):
        tail = (err or "")[(err or "").find("memory leaked"):]
        frames = re.findall(r"(/repo/[^\s:]+:\d+)", tail)
        res["ub"] = [{"message": "memory leaked (Miri leak checker)", "frame": frames[0] if frames else "", "stderr_tail": (err or "")[-1500:]}]
        return res
    if rc == 0 and os.path.exists(outp):
        with open(outp) as f:
            res["json"] = json.load(f)
        os.remove(outp)
        return res
    if "error: could not compile" in (err or "") or "error[E" in (err or ""):
        raise Inconclusive("harness does not build under Miri against the current tree: %s" % (err or "")[-800:].replace("\n", " | "))
    # abnormal termination inside the interpreter without a UB report (e.g. abort after a double panic)
    res["ub"] = [{"message": "interpreted program terminated abnormally (rc=%s) without finishing the workload" % rc, "frame": "", "stderr_tail": (err or "")[-1500:], "abnormal": True}]
    return res


# --------------------------------------------------------------------------- valgrind memcheck (E6)


def run_valgrind(binp, sub, tier, seed, shard=None, leak_check=True, timeout=7200):
    """The release harness under memcheck with the ledger's double-free protection off
    (KV_RAW_DROPS), single-threaded. Returns dict(engine, json or None, errors: [..]).
    Tool problems (valgrind missing, watchdog) are Inconclusive, never violations."""
    if shutil.which("valgrind") is None:
        raise Inconclusive("valgrind is not installed")
    os.makedirs(WORK, exist_ok=True)
    tag = "%s-vg-%s%s" % (sub, tier, ("-%d_%d" % shard) if shard else "")
    outp = os.path.join(WORK, "v-%s-%d.json" % (tag, os.getpid()))
    if os.path.exists(outp):
        os.remove(outp)
    cmd = ["valgrind", "--error-exitcode=97", "-q", "--num-callers=12"]
    cmd += ["--leak-check=full", "--errors-for-leak-kinds=definite"] if leak_check else ["--leak-check=no"]
    cmd += [binp, sub, "--tier", tier, "--seed", str(seed), "--threads", "1", "--out", outp]
    if shard:
        cmd += ["--shard", "%d/%d" % shard]
    rc, out, err = sh(cmd, timeout=timeout, env={"KV_RAW_DROPS": "1"})
    res = {"engine": "valgrind-memcheck", "sub": sub, "cmd": "KV_RAW_DROPS=1 " + " ".join(cmd), "errors": [], "json": None}
    if rc is None:
        raise Inconclusive("watchdog: valgrind run %s did not finish within %ds" % (tag, timeout))
    if os.path.exists(outp):
        with open(outp) as f:
            res["json"] = json.load(f)
        os.remove(outp)
    reports = re.findall(r"==\d+== (Invalid (?:read|write|free)[^\n]*|Mismatched free[^\n]*|Conditional jump or move depends on uninitialised[^\n]*|Use of uninitialised value[^\n]*|[\d,]+ bytes in [\d,]+ blocks are definitely lost[^\n]*|Process terminating with[^\n]*)", err or "")
    if rc == 97 or reports:
        frames = re.findall(r"\((\S+\.rs:\d+)\)", err or "")
        repo_frames = [f for f in frames if not f.startswith(("c15.rs", "c11.rs", "common.rs", "ledger.rs", "main.rs"))]
        res["errors"] = [{"message": (reports[0] if reports else "memcheck reported errors"), "frame": (repo_frames[0] if repo_frames else (frames[0] if frames else "")), "stderr_tail": (err or "")[-2500:]}]
        return res
    if rc != 0 and res["json"] is None:
        if rc < 0:
            res["errors"] = [{"message": "process under memcheck killed by signal %d" % -rc, "frame": "", "stderr_tail": (err or "")[-1500:]}]
            return res
        raise Inconclusive("valgrind run %s exited with %s: %s" % (tag, rc, (err or "")[-400:].replace("\n", " | ")))
    return res


# --------------------------------------------------------------------------- rustc for generated programs


def rustc_compile(src, out, konst_rlib, deps, emit_metadata=False, edition="2021", extra=None, timeout=1200, nightly=False, opt=False):
    cmd = ["rustc"] + (["+nightly"] if nightly else []) + ["--edition", edition, "--cap-lints", "allow", "-L", "dependency=" + deps, "--extern", "konst=" + konst_rlib]
    if emit_metadata:
        cmd += ["--emit=metadata", "--crate-type", "lib", "-o", out]
    else:
        cmd += ["-C", "debuginfo=0", "-C", "debug-assertions=on", "-C", "overflow-checks=on", "-o", out]
        if opt:
            cmd += ["-C", "opt-level=1"]
    if extra:
        cmd += extra
    cmd.append(src)
    return sh(cmd, timeout=timeout)


# --------------------------------------------------------------------------- known findings


def load_known():
    known, fixed = {}, []
    if os.path.exists(KNOWN_FILE):
        for line in open(KNOWN_FILE):
            line = line.strip()
            m = re.match(r"known:\s+property=(\S+)\s+key=(\S+)\s+(.*)", line)
            if m:
                known[(m.group(1), m.group(2))] = m.group(3)
            elif line.startswith("fixed:"):
                fixed.append(line)
    return known, fixed


# --------------------------------------------------------------------------- verdict assembly


class Outcome:
    """Collects what every engine of one check observed."""

    def __init__(self, prop, tier, seed):
        self.prop, self.tier, self.seed = prop, tier, seed
        self.t0 = time.monotonic()
        self.evals = 0
        self.nontrivial = {}  # group -> max distinct count (same workload in several build variants counts once)
        self.samples = []
        self.engines = {}
        self.hist = {}
        self.counters = {}
        self.failures = []  # dicts: sig, api, input, got, want, engine, variant, sub, cmd
        self.rules = []
        self.exhaustive = []
        self.notes = []
        self.assumptions = []
        self.inconclusive = []  # reasons that leave the verdict open unless a violation was observed elsewhere

    def add_harness(self, j, group=None, sig_filter=None):
        if j.get("flaky_crash"):
            self.inconclusive.append(j["reason"])
            self.notes.append("inconclusive engine: " + j["reason"])
            return
        if j.get("crash"):
            tail = j.get("stderr_tail", "")
            # stack or heap exhaustion (an unbounded loop or recursion) is a functional failure, not memory unsafety
            kind = "resource-exhaustion-crash" if ("has overflowed its stack" in tail or "memory allocation of" in tail) else "process-crash"
            self.failures.append({"sig": "%s:signal-%d" % (kind, j["signal"]), "api": j["sub"], "input": j["last_case"], "got": "process killed by signal %d while monitoring" % j["signal"],
                                  "want": "the workload runs to completion", "engine": j["engine"], "variant": j["variant"], "sub": j["sub"], "cmd": j["cmd"], "detail": j.get("stderr_tail", "")})
            return
        eng = "%s:%s" % (j.get("engine", "native"), j.get("variant", "?"))
        self.engines[eng] = self.engines.get(eng, 0) + j["evaluations"]
        self.evals += j["evaluations"]
        g = group or j["sub"]
        self.nontrivial[g] = max(self.nontrivial.get(g, 0), j["distinct_nontrivial"])
        for s in j["samples"]:
            if len(self.samples) < 12 and s not in self.samples:
                self.samples.append(s)
        for k, v in j["hist"].items():
            kk = "%s/%s" % (j["sub"], k)
            self.hist[kk] = self.hist.get(kk, 0) + v
        for k, v in j["counters"].items():
            self.counters[k] = self.counters.get(k, 0) + v
        self.counters["boundary_monitor_checks"] = self.counters.get("boundary_monitor_checks", 0) + j.get("boundary_checks", 0)
        if j["rule"] and j["rule"] not in self.rules:
            self.rules.append(j["rule"])
        if j["exhaustive"] and j["exhaustive"] not in self.exhaustive:
            self.exhaustive.append(j["exhaustive"])
        kept = {}
        for f in j["failures"]:
            if sig_filter and not sig_filter(f["sig"]):
                continue
            f = dict(f)
            f.update({"engine": j.get("engine", "native"), "variant": j.get("variant", "?"), "sub": j["sub"], "cmd": j.get("cmd", "")})
            # the total for the signature is attached to the first kept example only
            f["count_for_sig"] = 0 if f["sig"] in kept else j["fail_sigs"].get(f["sig"], 1)
            self.failures.append(f)
            kept[f["sig"]] = True
        # signatures whose examples were capped away
        for sig, n in j["fail_sigs"].items():
            if sig_filter and not sig_filter(sig):
                continue
            if sig not in kept:
                self.failures.append({"sig": sig, "api": sig, "input": "(example capped)", "got": "%d failures" % n, "want": "", "engine": j.get("engine", "native"), "variant": j.get("variant", "?"), "sub": j["sub"], "cmd": j.get("cmd", ""), "count_for_sig": n})

    def add_counts(self, engine, evals, nontrivial_group, nontrivial, samples=(), rule=None, exhaustive=None, hist=None):
        self.engines[engine] = self.engines.get(engine, 0) + evals
        self.evals += evals
        self.nontrivial[nontrivial_group] = max(self.nontrivial.get(nontrivial_group, 0), nontrivial)
        for s in samples:
            if len(self.samples) < 12 and s not in self.samples:
                self.samples.append(s)
        if rule and rule not in self.rules:
            self.rules.append(rule)
        if exhaustive and exhaustive not in self.exhaustive:
            self.exhaustive.append(exhaustive)
        for k, v in (hist or {}).items():
            self.hist[k] = self.hist.get(k, 0) + v

    def fail(self, sig, api, inp, got, want, engine, cmd="", detail="", source=None):
        d = {"sig": sig, "api": api, "input": inp, "got": got, "want": want, "engine": engine, "variant": "", "sub": "", "cmd": cmd, "detail": detail}
        if source:
            d["source"] = source
        self.failures.append(d)

    def finish(self, min_evals=1, exhaustive_flag=False):
        """Apply known findings, write replay + evidence, print verdict lines, return exit code."""
        known, _fixed = load_known()
        os.makedirs(EVID, exist_ok=True)
        viol, knowns = {}, {}
        for f in self.failures:
            key = (self.prop, f["sig"])
            if key in known:
                knowns.setdefault(f["sig"], []).append(f)
            else:
                viol.setdefault(f["sig"], []).append(f)
        for sig, fs in sorted(knowns.items()):
            print("KNOWN-FINDING: property=%s key=%s %s (observed %d time(s); e.g. %s)" % (self.prop, sig, known[(self.prop, sig)], sum(x.get("count_for_sig", 1) for x in fs), fs[0]["input"][:160]))
        rc = 0
        if viol:
            os.makedirs(REPLAY, exist_ok=True)
            for sig, fs in sorted(viol.items()):
                f0 = fs[0]
                h = hashlib.sha1((self.prop + sig + f0["input"]).encode()).hexdigest()[:10]
                path = os.path.join(REPLAY, "%s-%s.json" % (self.prop, h))
                with open(path, "w") as fp:
                    json.dump({"property": self.prop, "tier": self.tier, "seed": self.seed, "signature": sig, "first": f0, "more": fs[1:4], "occurrences": sum(x.get("count_for_sig", 1) for x in fs),
                               "replay": "./check %s --replay %s" % (self.prop, path)}, fp, indent=1, ensure_ascii=False)
                print("VIOLATION property=%s replay=%s" % (self.prop, path))
                print("  signature=%s engine=%s%s input=%s got=%s want=%s" % (sig, f0["engine"], (":" + f0["variant"]) if f0.get("variant") else "", f0["input"][:300], str(f0["got"])[:200], str(f0["want"])[:200]))
            rc = 1
        prune_work()
        total_nt = sum(self.nontrivial.values())
        wall = time.monotonic() - self.t0
        inconclusive = None
        if rc == 0 and self.inconclusive:
            inconclusive = "; ".join(self.inconclusive[:3])
        elif rc == 0 and (self.evals < min_evals or total_nt < 2):
            inconclusive = "observed too little (evaluations=%d, distinct_nontrivial=%d)" % (self.evals, total_nt)
        ev = {
            "property_id": self.prop,
            "tier": self.tier,
            "seed": self.seed,
            "level": "exploration",
            "coverage": {
                "evaluations": int(self.evals),
                "distinct_nontrivial": int(total_nt),
                "rule": " || ".join(self.rules),
                "samples": self.samples[:12] or ["(none)"],
                "exhaustive": bool(exhaustive_flag),
                "explored_space": self.exhaustive,
                "evaluations_by_engine": self.engines,
                "distinct_nontrivial_by_workload": self.nontrivial,
                "event_histogram": dict(sorted(self.hist.items())[:400]),
                "counters": self.counters,
                "known_findings_observed": {k: sum(x.get("count_for_sig", 1) for x in v) for k, v in knowns.items()},
                "notes": self.notes,
            },
            "assumptions": self.assumptions,
            "wall_s": round(wall, 2),
            "violations": len(viol),
        }
        with open(os.path.join(EVID, "%s.json" % self.prop), "w") as fp:
            json.dump(ev, fp, indent=1, ensure_ascii=False)
        if inconclusive:
            # nothing was decided: leave no evidence file that could be read as "held"
            os.remove(os.path.join(EVID, "%s.json" % self.prop))
            print("INCONCLUSIVE property=%s reason=%s" % (self.prop, inconclusive))
            return 2
        if rc == 0:
            print("OK property=%s tier=%s seed=%d evaluations=%d distinct_nontrivial=%d engines=%s wall_s=%.1f" % (self.prop, self.tier, self.seed, self.evals, total_nt, ",".join(sorted(self.engines)), wall))
        return rc


def prune_work():
    """Generated sources stay (replay files point at them); compiled artefacts go."""
    for root, dirs, files in os.walk(WORK):
        for f in files:
            if f.endswith((".bin", ".rmeta", ".rlib")) or (root.endswith("/src") is False and "." not in f and os.access(os.path.join(root, f), os.X_OK)):
                try:
                    os.remove(os.path.join(root, f))
                except OSError:
                    pass


def write_inconclusive_evidence(prop, tier, seed, reason):
    # an evidence file that honestly says nothing was decided (schema-valid "other" level is not
    # claimed; the check exits 2 and the missing/old evidence is removed instead)
    p = os.path.join(EVID, "%s.json" % prop)
    if os.path.exists(p):
        os.remove(p)


def seed_from_env():
    try:
        return int(os.environ.get("VERIF_SEED", "1"))
    except ValueError:
        return 1
