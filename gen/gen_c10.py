"""C10 – iterator-DSL method chains evaluate like the same std Iterator chains.

Generates (konst form, std form, hoisted-reversal std form) triples from a typed grammar
(DESIGN.md §6/C10), compiles them in batches with rustc against the rlibs cargo built for the
harness, runs them over all small inputs and applies the three-way oracle:

  expect S   : result == std chain                      (no reverser, or only stateless adapters before it)
  expect H   : result == std chain with the reversal hoisted (documented exceptions: enumerate before a
               reverser, rposition)
  class K1   : take/skip/zip before a reverser: == S fine, == H -> KNOWN-FINDING K1:<adapter>-before-<reverser>,
               anything else -> VIOLATION
"""
import itertools
import random
import re

from gcommon import Ctx, first_error
import kv

STATES = ("R", "V", "P", "Q", "A")
PATV = {"R": "&x", "V": "x", "P": "(i, x)", "Q": "(a, b)"}
PATR = {"R": "&&x", "V": "&x", "P": "&(i, x)", "Q": "&(a, b)"}
KEY = {"R": "x", "V": "x", "P": "(i as u32).wrapping_add(x)", "Q": "a.wrapping_mul(7).wrapping_add(b)"}
ELEM_TY = {"R": "&u32", "V": "u32", "P": "(usize, u32)", "Q": "(u32, u32)"}

STATELESS = {"copied", "map", "map_pair", "filter", "filter_map", "flat_map", "flatten"}
K1_ADAPTERS = {"take", "skip", "zip_short", "zip_long"}
REVERSERS = {"rev", "rfind", "rfold", "rposition"}


class Ad:
    """one adapter instance: konst text, std text (S form), std text in the hoisted form"""

    def __init__(self, name, k, s=None, h=None, key=None):
        self.name, self.k = name, k
        self.s = s if s is not None else k
        self.h = h if h is not None else self.s
        self.key = key  # u32 expression over the closure's pattern variables (trace family), None = no closure


def wrap_closure(text, idx, key):
    """`name(prefix |params| body)` -> `name(prefix |params| { tr(idx, key); body })`"""
    if key is None:
        return text
    m = re.match(r"^(.*?)\|([^|]*)\|\s*(.*)\)$", text, re.S)
    if not m:
        return text
    return "%s|%s| { tr(%d, %s); %s })" % (m.group(1), m.group(2), idx, key, m.group(3))


def adapters_for(state, dei, esi, has_rev, nlit=None):
    """yield (Ad, new_state, new_dei, new_esi)"""
    n = "n" if nlit is None else str(nlit)
    out = []
    if state == "A":
        out.append((Ad("flatten", "flatten()", "flatten()", "map(|a| a.iter().rev()).flatten()"), "R", dei, False))
        return out
    pv, pr, k = PATV[state], PATR[state], KEY[state]
    if state == "R":
        out.append((Ad("copied", "copied()"), "V", dei, esi))
    out.append((Ad("map", "map(|%s| %s.wrapping_mul(3).wrapping_add(1))" % (pv, k), key=k), "V", dei, esi))
    if state == "V":
        out.append((Ad("map_pair", "map(|x| (x, x.wrapping_add(1)))", key="x"), "Q", dei, esi))
    out.append((Ad("filter", "filter(|%s| %s %% 2 == 0)" % (pr, k), key=k), state, dei, False))
    out.append((Ad("filter_map", "filter_map(|%s| if %s %% 3 != 0 { Some(%s / 2) } else { None })" % (pv, k, k), key=k), "V", dei, False))
    out.append((Ad("flat_map", "flat_map(|%s| 0u32..(%s %% 3))" % (pv, k), None, "flat_map(|%s| (0u32..(%s %% 3)).rev())" % (pv, k), key=k), "V", dei, False))
    if state == "V":
        out.append((Ad("enumerate", "enumerate()"), "P", dei and esi, esi))
        out.append((Ad("zip_short", "zip(100u32..102)", None, "zip((100u32..102).rev())"), "Q", dei and esi, esi))
        out.append((Ad("zip_long", "zip(100u32..109)", None, "zip((100u32..109).rev())"), "Q", dei and esi, esi))
    out.append((Ad("skip", "skip(%s)" % n), state, dei and esi, esi))
    out.append((Ad("take", "take(%s)" % n), state, dei and esi, esi))
    out.append((Ad("skip_while", "skip_while(|%s| %s < 4)" % (pr, k), key=k), state, False, False))
    out.append((Ad("take_while", "take_while(|%s| %s < 6)" % (pr, k), key=k), state, False, False))
    if not has_rev and dei:
        out.append((Ad("rev", "rev()", "rev()", ""), state, dei, esi))
    return out


def consumers_for(state, dei, esi, has_rev, nlit=None):
    """(name, konst consumer text, std text, hoisted std text)"""
    n = "n" if nlit is None else str(nlit)
    pv, pr, k = PATV[state], PATR[state], KEY[state]
    c = [
        ("for_each", None, None, None),
        ("for_each_block", None, None, None),
        ("all", "all(|%s| %s %% 5 != 3)" % (pv, k), None, None),
        ("any", "any(|%s| %s %% 5 == 3)" % (pv, k), None, None),
        ("count", "count()", None, None),
        ("find", "find(|%s| %s %% 4 == 1)" % (pr, k), None, None),
        ("find_map", "find_map(|%s| if %s %% 4 == 1 { Some(%s.wrapping_add(100)) } else { None })" % (pv, k, k), None, None),
        ("fold", "fold(7u32, |acc, %s| acc.wrapping_mul(31).wrapping_add(%s))" % (pv, k), None, None),
        ("next", "next()", None, None),
        ("nth", "nth(%s)" % n, None, None),
        ("position", "position(|%s| %s %% 4 == 1)" % (pv, k), None, None),
    ]
    if not has_rev and dei:
        c.append(("rfind", "rfind(|%s| %s %% 4 == 1)" % (pr, k), None, "find(|%s| %s %% 4 == 1)" % (pr, k)))
        c.append(("rfold", "rfold(7u32, |acc, %s| acc.wrapping_mul(31).wrapping_add(%s))" % (pv, k), None, "fold(7u32, |acc, %s| acc.wrapping_mul(31).wrapping_add(%s))" % (pv, k)))
        if esi:
            c.append(("rposition", "rposition(|%s| %s %% 4 == 1)" % (pv, k), None, "position(|%s| %s %% 4 == 1)" % (pv, k)))
    return c


SOURCES = {
    # name: (konst expr, std expr, hoisted std expr, state, uses nested input)
    "slice": ("xs", "xs.iter()", "xs.iter().rev()", "R", False),
    "range": ("(2u32..2 + xs.len() as u32)", "(2u32..2 + xs.len() as u32)", "(2u32..2 + xs.len() as u32).rev()", "V", False),
    "nested": ("ys", "ys.iter()", "ys.iter().rev()", "A", True),
    # added in round 8: a konst iterator value (not an IntoIterKind::IsStdKind collection) and the inclusive range
    "iter_copied": ("konst::slice::iter_copied(xs)", "xs.iter().copied()", "xs.iter().copied().rev()", "V", False),
    "range_incl": ("(2u32..=1 + xs.len() as u32)", "(2u32..=1 + xs.len() as u32)", "(2u32..=1 + xs.len() as u32).rev()", "V", False),
}

# std's RangeInclusive<u32> is not an ExactSizeIterator: no rposition / rev-after-enumerate on the std side
NOT_EXACT_SIZE = {"range_incl"}


class Prog:
    def __init__(self, src, ads, cons, ckey=None, trace=False):
        self.src, self.ads, self.cons, self.ckey, self.trace = src, ads, cons, ckey, trace

    def traced(self):
        return Prog(self.src, self.ads, self.cons, self.ckey, True)

    def closures(self):
        return sum(1 for a in self.ads if a.key) + (1 if (self.cons[1] and "|" in self.cons[1]) else 0)

    def names(self):
        return [self.src] + [a.name for a in self.ads] + [self.cons[0]]

    def reverser_index(self):
        for i, a in enumerate(self.ads):
            if a.name == "rev":
                return i
        return len(self.ads) if self.cons[0] in REVERSERS else None

    def expectation(self):
        ri = self.reverser_index()
        if ri is None:
            return "S"
        before = [a.name for a in self.ads[:ri]]
        reverser = "rev" if ri < len(self.ads) else self.cons[0]
        doc = ("enumerate" in before) or reverser == "rposition"
        k1 = [b for b in before if b in K1_ADAPTERS]
        if doc and k1:
            return None  # outside the generated family (see module doc / DESIGN)
        if doc:
            return "H"
        if k1:
            a = k1[0]
            return "K1:%s-before-%s" % ("zip" if a.startswith("zip") else a, reverser)
        return "S"

    def chain(self, which, k5=False):
        ksrc, ssrc, hsrc, _, _ = SOURCES[self.src]
        w0 = (lambda txt, i, a: wrap_closure(txt, i, a.key)) if self.trace else (lambda txt, i, a: txt)
        # K5 model: konst's take(n) pulls (and discards) one more upstream element before it stops
        w = (lambda txt, i, a: ("take_extra" + txt[4:]) if (k5 and a.name == "take") else w0(txt, i, a))
        if which == "k":
            parts = [w(a.k, i, a) for i, a in enumerate(self.ads)]
            return ksrc, parts
        if which == "s":
            return ssrc, [w(a.s, i, a) for i, a in enumerate(self.ads)]
        # only the adapters that precede the reverser pull from the back; the ones after it run forwards
        ri = self.reverser_index()
        ri = len(self.ads) if ri is None else ri
        return hsrc, [w(a.h if i < ri else a.s, i, a) for i, a in enumerate(self.ads) if a.name != "rev"]

    def exprs(self):
        name, kc, sc, hc = self.cons
        if self.trace and kc and "|" in kc:
            ci = len(self.ads)
            kc, sc, hc = (wrap_closure(x, ci, self.ckey) if x else x for x in (kc, sc, hc))
        ksrc, kparts = self.chain("k")
        ssrc, sparts = self.chain("s")
        hsrc, hparts = self.chain("h")
        has_rev = self.reverser_index() is not None
        if self.trace:
            # (konst, expected std form, the same form under the K5 model or None)
            exp_h = self.expectation() == "H"
            esrc, eparts = (hsrc, hparts) if exp_h else (ssrc, sparts)
            ec = (hc or sc or kc) if exp_h else (sc or kc)
            has_take = any(a.name == "take" for a in self.ads)
            fsrc, fparts = self.chain("h" if exp_h else "s", k5=True)
            esrc, fsrc = esrc + ".opaque()", fsrc + ".opaque()"
            if name in ("for_each", "for_each_block"):
                if name == "for_each":
                    k = "{ let mut v = Vec::new(); konst::iter::eval!(%s, for_each(|e| v.push(e))); v }" % ", ".join([ksrc] + kparts)
                else:
                    k = "{ let mut v = Vec::new(); konst::iter::for_each!{e in %s => v.push(e);} v }" % ", ".join([ksrc] + kparts)
                e = "%s.collect::<Vec<_>>()" % ".".join([esrc] + eparts)
                f = "%s.collect::<Vec<_>>()" % ".".join([fsrc] + fparts)
            else:
                k = "konst::iter::eval!(%s)" % ", ".join([ksrc] + kparts + [kc])
                e = ".".join([esrc] + eparts + [ec])
                f = ".".join([fsrc] + fparts + [ec])
            return k, e, (f if has_take else None)
        if name == "for_each":
            k = "{ let mut v = Vec::new(); konst::iter::eval!(%s, for_each(|e| v.push(e))); v }" % ", ".join([ksrc] + kparts)
            s = "%s.collect::<Vec<_>>()" % ".".join([ssrc] + sparts)
            h = "%s.collect::<Vec<_>>()" % ".".join([hsrc] + hparts)
        elif name == "for_each_block":
            k = "{ let mut v = Vec::new(); konst::iter::for_each!{e in %s => v.push(e);} v }" % ", ".join([ksrc] + kparts)
            s = "%s.collect::<Vec<_>>()" % ".".join([ssrc] + sparts)
            h = "%s.collect::<Vec<_>>()" % ".".join([hsrc] + hparts)
        else:
            k = "konst::iter::eval!(%s)" % ", ".join([ksrc] + kparts + [kc])
            s = ".".join([ssrc] + sparts + [sc or kc])
            h = ".".join([hsrc] + hparts + [hc or sc or kc])
        return k, s, (h if has_rev else None)


def all_programs(max_depth):
    progs = []
    for src, (_, _, _, st0, _) in SOURCES.items():
        def rec(state, dei, esi, has_rev, ads):
            if state != "A":
                for c in consumers_for(state, dei, esi, has_rev):
                    p = Prog(src, list(ads), c, KEY[state])
                    if p.expectation() is not None:
                        progs.append(p)
            if len(ads) < max_depth:
                for (a, ns, nd, ne) in adapters_for(state, dei, esi, has_rev):
                    rec(ns, nd, ne, has_rev or a.name == "rev", ads + [a])
        rec(st0, True, src not in NOT_EXACT_SIZE, False, [])
    return progs


def random_program(rnd, dmin, dmax):
    while True:
        src = rnd.choice(list(SOURCES))
        state, dei, esi, has_rev, ads = SOURCES[src][3], True, src not in NOT_EXACT_SIZE, False, []
        depth = rnd.randint(dmin, dmax)
        ok = True
        while len(ads) < depth:
            opts = adapters_for(state, dei, esi, has_rev)
            a, state, dei, esi = rnd.choice(opts)
            has_rev = has_rev or a.name == "rev"
            ads.append(a)
        if state == "A":
            continue
        c = rnd.choice(consumers_for(state, dei, esi, has_rev))
        p = Prog(src, ads, c, KEY[state])
        if ok and p.expectation() is not None:
            return p


PRELUDE = r'''
#![allow(unused, clippy::all)]
use std::panic::{catch_unwind, AssertUnwindSafe};

fn arrays(vals: &[u32], maxlen: usize) -> Vec<Vec<u32>> {
    let mut out = vec![vec![]];
    let mut prev: Vec<Vec<u32>> = vec![vec![]];
    for _ in 0..maxlen {
        let mut cur = vec![];
        for p in &prev { for v in vals { let mut x = p.clone(); x.push(*v); cur.push(x); } }
        out.extend(cur.iter().cloned());
        prev = cur;
    }
    out
}
fn nested(maxlen: usize) -> Vec<Vec<[u32; 2]>> {
    let pairs: Vec<[u32; 2]> = [0u32, 1, 4].iter().flat_map(|a| [0u32, 1, 4].iter().map(move |b| [*a, *b])).collect();
    let mut out = vec![vec![]];
    let mut prev: Vec<Vec<[u32; 2]>> = vec![vec![]];
    for _ in 0..maxlen {
        let mut cur = vec![];
        for p in &prev { for v in &pairs { let mut x = p.clone(); x.push(*v); cur.push(x); } }
        out.extend(cur.iter().cloned());
        prev = cur;
    }
    out
}
thread_local! { static TRACE: std::cell::RefCell<Vec<(u8, u32)>> = std::cell::RefCell::new(Vec::new()); }
/// closure-call monitor of the trace family: which closure of the chain was called on which element
fn tr(i: usize, k: u32) { TRACE.with(|t| t.borrow_mut().push((i as u8, k))); }
/// the calls since the last take, as a multiset (order of side effects is not part of the property)
fn take_trace() -> Vec<(u8, u32)> { let mut v = TRACE.with(|t| std::mem::take(&mut *t.borrow_mut())); v.sort(); v }
/// hides TrustedRandomAccess from std's adapters: the specialised Zip/fold paths skip or add closure calls
/// on the element after the shorter side ends, the plain `a.next()? ; b.next()?` definition does not
struct Opaque<I>(I);
impl<I: Iterator> Iterator for Opaque<I> { type Item = I::Item; fn next(&mut self) -> Option<I::Item> { self.0.next() } fn size_hint(&self) -> (usize, Option<usize>) { self.0.size_hint() } }
impl<I: DoubleEndedIterator> DoubleEndedIterator for Opaque<I> { fn next_back(&mut self) -> Option<I::Item> { self.0.next_back() } }
impl<I: ExactSizeIterator> ExactSizeIterator for Opaque<I> {}
trait KvOpaque: Iterator + Sized { fn opaque(self) -> Opaque<Self> { Opaque(self) } }
impl<I: Iterator> KvOpaque for I {}
/// K5 model of konst's `take(n)`: after n items it pulls one more upstream item, discards it and stops
struct TakeExtra<I> { it: I, n: usize, done: bool }
impl<I: Iterator> Iterator for TakeExtra<I> {
    type Item = I::Item;
    fn next(&mut self) -> Option<I::Item> {
        if self.done { return None; }
        if self.n == 0 { self.done = true; let _ = self.it.next(); return None; }
        self.n -= 1;
        let x = self.it.next();
        if x.is_none() { self.done = true; }
        x
    }
}
trait KvTakeExtra: Iterator + Sized { fn take_extra(self, n: usize) -> TakeExtra<Self> { TakeExtra { it: self, n, done: false } } }
impl<I: Iterator> KvTakeExtra for I {}
struct Tally { k5: u64, evals: u64, both: u64, s_only: u64, h_only: u64, neither: u64, panics: u64, first: Option<String>, worst: bool }
fn run(id: usize, nested_src: bool, f: &dyn Fn(&[u32], &[[u32; 2]], usize) -> (u8, Option<String>)) {
    let mut t = Tally { k5: 0, evals: 0, both: 0, s_only: 0, h_only: 0, neither: 0, panics: 0, first: None, worst: false };
    let xs_all = arrays(&[0, 1, 4, 6], 4);
    let ys_all = nested(2);
    let empty_x: Vec<u32> = vec![];
    let empty_y: Vec<[u32; 2]> = vec![];
    let n_inputs = if nested_src { ys_all.len() } else { xs_all.len() };
    for i in 0..n_inputs {
        let (xs, ys): (&[u32], &[[u32; 2]]) = if nested_src { (&empty_x, &ys_all[i]) } else { (&xs_all[i], &empty_y) };
        for n in 0..4usize {
            t.evals += 1;
            match catch_unwind(AssertUnwindSafe(|| f(xs, ys, n))) {
                Ok((bits, detail)) => {
                    match bits { 3 => t.both += 1, 1 => t.s_only += 1, 2 => t.h_only += 1, 4 => t.k5 += 1, _ => t.neither += 1 }
                    if bits == 4 { if t.first.is_none() { t.first = Some(format!("xs={:?} ys={:?} n={} -> {}", xs, ys, n, detail.clone().unwrap_or_default())); } }
                    if bits != 3 && bits != 4 && (t.first.is_none() || (bits == 0 && !t.worst)) {
                        t.first = Some(format!("xs={:?} ys={:?} n={} -> {}", xs, ys, n, detail.unwrap_or_default()));
                        t.worst = bits == 0;
                    }
                }
                Err(_) => { t.panics += 1; if t.first.is_none() { t.first = Some(format!("xs={:?} ys={:?} n={} -> konst/std chain panicked", xs, ys, n)); } }
            }
        }
    }
    println!("P\t{}\t{}\t{}\t{}\t{}\t{}\t{}\t{}\t{}", id, t.evals, t.both, t.s_only, t.h_only, t.neither, t.panics, t.first.unwrap_or_default().replace('\t', " ").replace('\n', " "), t.k5);
}
'''


def render_file(progs_with_ids):
    parts = [PRELUDE, "fn main() {\n    std::panic::set_hook(Box::new(|_| {}));\n"]
    fns = []
    for pid, p in progs_with_ids:
        k, s, h = p.exprs()
        if p.trace:
            # k = konst, s = the expected std form (plain or hoisted), h = that form under the K5 model (or None)
            k, s = ("{ let _ = take_trace(); let r = %s; (r, take_trace()) }" % e for e in (k, s))
            body = "#[inline(never)]\nfn p%d(xs: &[u32], ys: &[[u32; 2]], n: usize) -> (u8, Option<String>) {\n    let k = %s;\n    let s = %s;\n" % (pid, k, s)
            if h is not None:
                body += "    let f = { let _ = take_trace(); let r = %s; (r, take_trace()) };\n    let bits = if k == s { 3 } else if k == f { 4 } else { 0 };\n    (bits, if bits == 3 { None } else { Some(format!(\"konst={:?} std={:?} K5-model={:?}\", k, s, f)) })\n}\n" % h
            else:
                body += "    let bits = if k == s { 3 } else { 0 };\n    (bits, if bits == 3 { None } else { Some(format!(\"konst={:?} std={:?}\", k, s)) })\n}\n"
            fns.append(body)
            parts.append("    run(%d, %s, &p%d);\n" % (pid, "true" if SOURCES[p.src][4] else "false", pid))
            continue
        body = "#[inline(never)]\nfn p%d(xs: &[u32], ys: &[[u32; 2]], n: usize) -> (u8, Option<String>) {\n    let k = %s;\n    let s = %s;\n" % (pid, k, s)
        if h is not None:
            body += "    let h = %s;\n    let bits = ((k == s) as u8) | (((k == h) as u8) << 1);\n    (bits, if bits == 3 { None } else { Some(format!(\"konst={:?} std={:?} hoisted={:?}\", k, s, h)) })\n}\n" % h
        else:
            body += "    let bits = if k == s { 3 } else { 0 };\n    (bits, if bits == 3 { None } else { Some(format!(\"konst={:?} std={:?}\", k, s)) })\n}\n"
        fns.append(body)
        parts.append("    run(%d, %s, &p%d);\n" % (pid, "true" if SOURCES[p.src][4] else "false", pid))
    parts.append("}\n")
    return "".join(parts[:1]) + "".join(fns) + "".join(parts[1:])


# ---------------------------------------------------------------- collect_const! programs (const inputs, literal n)

CONST_INPUTS = ["[]", "[1]", "[0, 4]", "[1, 4, 6]", "[6, 1, 0, 4]", "[4, 4, 1, 6, 0]"]
CONST_NESTED = ["[]", "[[1, 4]]", "[[0, 1], [4, 4]]", "[[6, 1], [0, 0], [1, 4]]"]


def cc_programs(rnd, count, max_depth):
    """collect_const! needs literal arguments: adapters are regenerated with a literal n"""
    out = []
    tries = 0
    while len(out) < count and tries < count * 50:
        tries += 1
        src = rnd.choice(list(SOURCES))
        nlit = rnd.randint(0, 3)
        state, dei, esi, has_rev, ads = SOURCES[src][3], True, src not in NOT_EXACT_SIZE, False, []
        depth = rnd.randint(0, max_depth)
        while len(ads) < depth or state == "A":
            a, state, dei, esi = rnd.choice(adapters_for(state, dei, esi, has_rev, nlit))
            has_rev = has_rev or a.name == "rev"
            ads.append(a)
        p = Prog(src, ads, ("for_each", None, None, None))
        if p.expectation() is None:
            continue
        out.append((p, state))
    return out


def render_cc_file(items, base_id):
    lines = ["#![allow(unused, clippy::all)]\n"]
    for i, s in enumerate(CONST_INPUTS):
        n = 0 if s == "[]" else s.count(",") + 1
        lines.append("const IN%d: [u32; %d] = %s;\n" % (i, n, s))
    for i, s in enumerate(CONST_NESTED):
        n = s.count("[") - 1
        lines.append("const NE%d: [[u32; 2]; %d] = %s;\n" % (i, n, s))
    main = ["fn main() {\n"]
    for j, (p, state) in enumerate(items):
        pid = base_id + j
        nested_src = SOURCES[p.src][4]
        inputs = range(len(CONST_NESTED)) if nested_src else range(len(CONST_INPUTS))
        for ii in inputs:
            cname = ("NE%d" if nested_src else "IN%d") % ii
            ksrc, kparts = p.chain("k")
            ssrc, sparts = p.chain("s")
            hsrc, hparts = p.chain("h")
            sub = (lambda e: e.replace("ys", "(&%s)" % cname) if nested_src else e.replace("xs.len()", "%s.len()" % cname).replace("xs", "(&%s)" % cname))
            # the konst source of a slice is `&CONST`; std's `.iter()` on `(&CONST)` is fine too
            kexpr = "konst::iter::collect_const!(%s => %s)" % (ELEM_TY[state], ", ".join([sub(ksrc)] + kparts))
            lines.append("const K_%d_%d: &[%s] = &%s;\n" % (pid, ii, ELEM_TY[state].replace("&u32", "&'static u32"), kexpr))
            sexpr = ".".join([sub(ssrc)] + sparts) + ".collect::<Vec<_>>()"
            has_rev = p.reverser_index() is not None
            hexpr = (".".join([sub(hsrc)] + hparts) + ".collect::<Vec<_>>()") if has_rev else sexpr
            main.append("    {{ let s = {s}; let h = {h}; let k: &[_] = K_{pid}_{ii}; let bits = ((k == &s[..]) as u8) | (((k == &h[..]) as u8) << 1); println!(\"C\\t{pid}\\t{ii}\\t{{}}\\t{{}}\", bits, if bits == 3 {{ String::new() }} else {{ format!(\"input={{:?}} konst={{:?}} std={{:?}} hoisted={{:?}}\", {cname}, k, s, h) }}); }}\n".format(s=sexpr, h=hexpr, pid=pid, ii=ii, cname=cname))
    main.append("}\n")
    return "".join(lines) + "".join(main)


# ---------------------------------------------------------------- chains the DSL is documented to reject

DOUBLE_REV = [
    # (name, konst chain after the source, std chain after `.iter()`)
    ("rev,rev,collect", "rev(), rev(), for_each(|e| v.push(*e))", "rev().rev().copied().collect::<Vec<u32>>()"),
    ("rev,map,rev,collect", "rev(), map(|x| *x * 2), rev(), for_each(|e| v.push(e))", "rev().map(|x| *x * 2).rev().collect::<Vec<u32>>()"),
    ("filter,rev,rev,next", "filter(|x| **x > 2), rev(), rev(), next()", "filter(|x| **x > 2).rev().rev().next()"),
    ("rev,rfind", "rev(), rfind(|x| **x % 2 == 0)", "rev().rfind(|x| **x % 2 == 0)"),
    ("rev,rfold", "rev(), rfold(0u32, |acc, &x| acc.wrapping_mul(10).wrapping_add(x))", "rev().rfold(0u32, |acc, &x| acc.wrapping_mul(10).wrapping_add(x))"),
    ("rev,rposition", "rev(), rposition(|x| *x % 2 == 0)", "rev().rposition(|x| *x % 2 == 0)"),
    ("rev,copied,rev,rfind", "rev(), copied(), rev(), rfind(|x| *x > 1)", "rev().copied().rev().rfind(|x| *x > 1)"),
    ("rev,rev,rev,nth", "rev(), rev(), rev(), nth(1)", "rev().rev().rev().nth(1)"),
    # a state-carrying adapter between the two reversals
    ("rev,take,rev,collect", "rev(), take(3), rev(), for_each(|e| v.push(*e))", "rev().take(3).rev().copied().collect::<Vec<u32>>()"),
    ("rev,skip,rev,collect", "rev(), skip(1), rev(), for_each(|e| v.push(*e))", "rev().skip(1).rev().copied().collect::<Vec<u32>>()"),
    ("rev,enumerate,rfold", "rev(), enumerate(), rfold(0u32, |acc, (_, x)| acc.wrapping_mul(10).wrapping_add(*x))", "rev().enumerate().rfold(0u32, |acc, (_, x)| acc.wrapping_mul(10).wrapping_add(*x))"),
    ("rev,zip,rfind", "rev(), zip(0u32..2), rfind(|(x, _)| **x > 1)", "rev().zip(0u32..2).rfind(|(x, _)| **x > 1)"),
    ("rev,skip_while,rposition", "rev(), skip_while(|x| **x > 4), rposition(|x| *x % 2 == 0)", "rev().skip_while(|x| **x > 4).collect::<Vec<_>>().into_iter().rposition(|x| *x % 2 == 0)"),
    ("rev,take_while,rev,next", "rev(), take_while(|x| **x > 1), rev(), next()", "rev().take_while(|x| **x > 1).collect::<Vec<_>>().into_iter().rev().next()"),
]

DOUBLE_REV_TEMPLATE = r"""
#![allow(unused, clippy::all)]
fn main() {
    let inputs: [&[u32]; 5] = [&[], &[4], &[1, 2], &[1, 2, 3, 4, 5, 6], &[6, 1, 1, 4, 3]];
    let mut bad = 0;
    for xs in inputs {
        let k = { let mut v: Vec<u32> = Vec::new(); let r = konst::iter::eval!(xs, %(k)s); (format!("{:?}", r), v) };
        let s = { let v: Vec<u32> = Vec::new(); let r = xs.iter().%(s)s; (format!("{:?}", r), v) };
        // for_each chains deliver through `v`, the others through the result
        let kk = if k.1.is_empty() { k.0.clone() } else { format!("{:?}", k.1) };
        let ss = if s.0 == "()" { s.0.clone() } else { s.0.clone() };
        let same = if k.0 == "()" { format!("{:?}", k.1) == s.0 } else { k.0 == s.0 };
        if !same { bad += 1; println!("DIFF\t{:?}\tkonst={} {:?}\tstd={}", xs, k.0, k.1, s.0); }
    }
    println!("DONE\t{}", bad);
}
"""


def run_double_reversal(cx, out, hist):
    """The DSL documents that a second reversing method is a compile error. A change that lets such a chain
    compile makes it a chain like any other: it is then executed and must equal the std chain."""
    srcs = [cx.write("c10_dblrev_%d.rs" % i, DOUBLE_REV_TEMPLATE % {"k": k, "s": s}) for i, (_, k, s) in enumerate(DOUBLE_REV)]
    comp = cx.compile_many(srcs)
    n = 0
    for (name, k, s), src, (rc, se, outp) in zip(DOUBLE_REV, srcs, comp):
        if rc is None:
            raise kv.Inconclusive("watchdog: rustc did not finish on %s" % src)
        n += 1
        if rc != 0:
            hist["double-reversal/rejected-at-compile-time"] = hist.get("double-reversal/rejected-at-compile-time", 0) + 1
            continue
        rc2, so, se2 = cx.run(outp, timeout=600)
        if rc2 != 0:
            out.fail("double-reversal-compiles-and-panics:" + name, "iterator DSL", "eval!(xs, %s)" % k, "rc=%s %s" % (rc2, (se2 or "")[-200:]), "std: xs.iter()." + s, "generated-program", cmd=outp, source=src)
            continue
        diffs = [l for l in (so or "").splitlines() if l.startswith("DIFF")]
        hist["double-reversal/compiles"] = hist.get("double-reversal/compiles", 0) + 1
        if diffs:
            out.fail("double-reversal-compiles-and-differs-from-std:" + name, "iterator DSL", "eval!(xs, %s) | %s" % (k, diffs[0][:300]), "%d of 5 inputs differ" % len(diffs), "std: xs.iter()." + s, "generated-program", cmd=outp, source=src)
    return n


# ---------------------------------------------------------------- argument expressions are evaluated once

ARGS_TEMPLATE = r"""
#![allow(unused, clippy::all)]
use std::cell::Cell;
/// the n-th `tick` call of an expression appends n's position label: the trace of `f(tick(a), tick(b))` is 12
fn tick<T>(c: &Cell<u32>, v: T) -> T { c.set(c.get() * 10 + 1); v }
fn tick2<T>(c: &Cell<u32>, v: T) -> T { c.set(c.get() * 10 + 2); v }
macro_rules! both {
    ($name:expr, $c:ident, $k:expr, $s:expr) => {{
        let $c = Cell::new(0u32); let k = ($k, $c.get());
        let $c = Cell::new(0u32); let s = ($s, $c.get());
        unsafe { EVALS += 1; }
        if k != s { println!("FAIL\t{}\t{:?}\t{:?}", $name, k, s); }
    }};
}
static mut EVALS: u64 = 0;
fn main() {
    let all: [&[u32]; 4] = [&[], &[5], &[1, 2, 3], &[4, 1, 6, 0, 3, 9]];
    for xs in all { for n in 0..4usize {
        // the value arguments of adapters and consumers are ordinary expressions: std evaluates each exactly once
        // (when the adapter is built), whatever the number of items
        both!("take(arg)", c, konst::iter::eval!(xs, take(tick(&c, n)), count()), xs.iter().take(tick(&c, n)).count());
        both!("skip(arg)", c, konst::iter::eval!(xs, skip(tick(&c, n)), count()), xs.iter().skip(tick(&c, n)).count());
        both!("nth(arg)", c, konst::iter::eval!(xs, copied(), nth(tick(&c, n))), xs.iter().copied().nth(tick(&c, n)));
        both!("skip(arg),take(arg)", c, konst::iter::eval!(xs, skip(tick(&c, 1)), take(tick2(&c, n)), copied(), fold(0u32, |a, x| a * 10 + x)), xs.iter().skip(tick(&c, 1)).take(tick2(&c, n)).copied().fold(0u32, |a, x| a * 10 + x));
        both!("fold(init arg)", c, konst::iter::eval!(xs, copied(), fold(tick(&c, n as u32), |a, x| a.wrapping_mul(3).wrapping_add(x))), xs.iter().copied().fold(tick(&c, n as u32), |a, x| a.wrapping_mul(3).wrapping_add(x)));
        both!("rfold(init arg)", c, konst::iter::eval!(xs, copied(), rfold(tick(&c, n as u32), |a, x| a.wrapping_mul(3).wrapping_add(x))), xs.iter().copied().rfold(tick(&c, n as u32), |a, x| a.wrapping_mul(3).wrapping_add(x)));
        both!("zip(arg)", c, konst::iter::eval!(xs, copied(), zip(tick(&c, 10u32..12)), count()), xs.iter().copied().zip(tick(&c, 10u32..12)).count());
        both!("source expression", c, konst::iter::eval!(tick(&c, xs), copied(), position(|x| x == 6)), tick(&c, xs).iter().copied().position(|x| x == 6));
        both!("for_each! source and take(arg)", c, { let mut v = Vec::new(); konst::iter::for_each!{x in tick(&c, xs), take(tick2(&c, n)) => v.push(*x);} v }, tick(&c, xs).iter().take(tick2(&c, n)).copied().collect::<Vec<u32>>());
        both!("range source", c, konst::iter::eval!(tick(&c, 0..n), rev(), take(tick2(&c, 2)), count()), tick(&c, 0..n).rev().take(tick2(&c, 2)).count());
        // (the DSL evaluates a consumer's value argument before the adapters' arguments; only the number of
        // evaluations is compared across that boundary, the order among source and adapters is compared above)
        both!("source, zip(arg), fold(init arg)", c, konst::iter::eval!(tick(&c, xs), copied(), zip(tick(&c, 10u32..12)), fold(tick(&c, 1u32), |a, (x, y)| a.wrapping_mul(7).wrapping_add(x + y))), tick(&c, xs).iter().copied().zip(tick(&c, 10u32..12)).fold(tick(&c, 1u32), |a, (x, y)| a.wrapping_mul(7).wrapping_add(x + y)));
    }}
    // the counters the DSL hands out are `usize` whatever the surrounding code does with them: a result left to
    // integer fallback would be an `i32`
    fn tn<T>(_: &T) -> &'static str { std::any::type_name::<T>() }
    let xs: &[u32] = &[4, 1, 6];
    both!("type of count()", c, tn(&konst::iter::eval!(xs, count())), tn(&xs.iter().count()));
    both!("type of position()", c, tn(&konst::iter::eval!(xs, position(|_| true))), tn(&xs.iter().position(|_| true)));
    both!("type of rposition()", c, tn(&konst::iter::eval!(xs, rposition(|_| true))), tn(&xs.iter().rposition(|_| true)));
    both!("type of the enumerate() index", c, { let mut n = ""; konst::iter::eval!(xs, enumerate(), for_each(|(i, _)| n = tn(&i))); n }, { let mut n = ""; xs.iter().enumerate().for_each(|(i, _)| n = tn(&i)); n });
    both!("type of the enumerate() index (for_each!)", c, { let mut n = ""; konst::iter::for_each!{(i, _) in xs, enumerate() => n = tn(&i);} n }, { let mut n = ""; xs.iter().enumerate().for_each(|(i, _)| n = tn(&i)); n });
    both!("index arithmetic left to inference", c, konst::iter::eval!(xs, enumerate(), map(|(i, &b)| ((i + 1) << 31) as u64 + b as u64), fold(0u64, |a, x| a.wrapping_add(x))), xs.iter().enumerate().map(|(i, &b)| ((i + 1) << 31) as u64 + b as u64).fold(0u64, |a, x| a.wrapping_add(x)));
    println!("N\t{}", unsafe { EVALS });
}
"""


def run_argument_expressions(cx, out, hist):
    src = cx.write("c10_args.rs", ARGS_TEMPLATE)
    rc, se, outp = cx.compile(src)
    if rc is None:
        raise kv.Inconclusive("watchdog: rustc did not finish on %s" % src)
    if rc != 0:
        out.fail("compile-error:argument-expression-program", "iterator DSL", src, first_error(se)[:300], "side-effecting argument expressions are valid arguments", "rustc", cmd="rustc " + src, source=src)
        return 0
    rc2, so, se2 = cx.run(outp, timeout=600)
    if rc2 != 0:
        raise kv.Inconclusive("generated program %s exited with %s: %s" % (outp, rc2, (se2 or "")[-300:]))
    n = 0
    seen = set()
    for line in (so or "").splitlines():
        f = line.split("\t")
        if f[0] == "FAIL" and f[1] not in seen:
            seen.add(f[1])
            out.fail("argument-expression-not-evaluated-once:" + f[1], "iterator DSL", f[1], "(result, evaluations of the argument expressions) = " + f[2][:200], f[3][:200], "generated-program", cmd=outp, source=src)
        elif f[0] == "N":
            n = int(f[1])
    hist["argument-expression-programs"] = n
    return n


# ---------------------------------------------------------------- engine


def run(out, tier, seed):
    thorough = tier == "thorough"
    cx = Ctx("c10")
    rnd = random.Random(seed * 7919 + 17)
    progs = all_programs(3 if thorough else 2)
    if not thorough:
        # the direction bookkeeping of the DSL only shows with an adapter on each side of `rev()`:
        # every depth-3 chain containing `rev`, with the two consumers that expose the whole sequence
        progs += [p for p in all_programs(3) if len(p.ads) == 3 and any(a.name == "rev" for a in p.ads) and p.cons[0] in ("for_each", "fold")]
    exhaustive_n = len(progs)
    nrand = 10000 if thorough else 1500
    seen = set(tuple(p.names()) + tuple(a.k for a in p.ads) for p in progs)
    for _ in range(nrand):
        p = random_program(rnd, 4 if thorough else 3, 6 if thorough else 5)
        progs.append(p)
    # trace family: the same chains with a call monitor in every closure; result and the multiset of
    # (closure, element) calls must equal the std chain's (a closure that panics on an element std never
    # passes to it would otherwise turn a value into a panic)
    tprogs = [p.traced() for p in all_programs(3 if thorough else 2) if p.closures() >= 1 and p.expectation() in ("S", "H")]
    if not thorough:
        tr_rnd = random.Random(seed * 104729 + 5)
        for _ in range(600):
            p = random_program(tr_rnd, 3, 4)
            if p.closures() >= 1 and p.expectation() in ("S", "H"):
                tprogs.append(p.traced())
    progs += tprogs
    ids = list(enumerate(progs))
    # batches: <= 250 programs per file keeps rustc near-linear
    per = 250
    batches = [ids[i:i + per] for i in range(0, len(ids), per)]
    srcs = [cx.write("c10_%03d.rs" % bi, render_file(b)) for bi, b in enumerate(batches)]
    # collect_const! programs
    ccs = cc_programs(rnd, 1200 if thorough else 240, 3)
    cc_per = 60
    cc_batches = [ccs[i:i + cc_per] for i in range(0, len(ccs), cc_per)]
    cc_srcs = [cx.write("c10_cc_%03d.rs" % bi, render_cc_file(b, bi * cc_per)) for bi, b in enumerate(cc_batches)]

    comp = cx.compile_many(srcs + cc_srcs)
    bins, failed = [], []
    for (rc, se, outp), src in zip(comp, srcs + cc_srcs):
        if rc is None:
            raise kv.Inconclusive("watchdog: rustc did not finish on %s" % src)
        if rc != 0:
            failed.append((src, se))
        else:
            bins.append((src, outp))
    compile_fail_programs = 0
    for src, se in failed:
        # a valid generated program that does not compile: report (first error line as signature)
        msg = first_error(se)
        m = re.search(r"-->\s*\S+:(\d+):", se or "")
        line = int(m.group(1)) if m else 0
        srcline = ""
        try:
            srcline = open(src).read().splitlines()[line - 1].strip() if line else ""
        except Exception:
            pass
        compile_fail_programs += 1
        out.fail("compile-error:" + re.sub(r"[^A-Za-z0-9_:!\[\] ]", "", msg)[:80], "iterator DSL", "%s line %d: %s" % (src, line, srcline[:400]), msg[:400], "a valid generated chain compiles", "rustc", cmd="rustc %s" % src, source=src)
    results = cx.run_many([b for _, b in bins], timeout=3600)
    hist = {}
    evals = 0
    nontrivial = 0
    samples = []
    k1_seen = {}
    for (src, b), (rc, so, se) in zip(bins, results):
        if rc is None:
            raise kv.Inconclusive("watchdog: generated program %s did not finish" % b)
        if rc != 0:
            raise kv.Inconclusive("generated program %s exited with %s: %s" % (b, rc, (se or "")[-300:]))
        for line in so.splitlines():
            f = line.split("\t")
            if f[0] == "P":
                pid, ev, both, s_only, h_only, neither, panics = (int(x) for x in f[1:8])
                detail = f[8] if len(f) > 8 else ""
                k5 = int(f[9]) if len(f) > 9 else 0
                p = progs[pid]
                exp = p.expectation()
                desc = "eval!/for_each!(%s)" % ", ".join(p.exprs()[0:1])
                evals += ev
                hist["consumer:" + p.cons[0]] = hist.get("consumer:" + p.cons[0], 0) + ev
                for a in p.ads:
                    hist["adapter:" + a.name] = hist.get("adapter:" + a.name, 0) + ev
                hist["expect:" + exp.split(":")[0]] = hist.get("expect:" + exp.split(":")[0], 0) + ev
                if both + s_only < ev or h_only or neither:
                    pass
                # non-trivial: the chain has >= 1 adapter and the result depends on the input (not all inputs agree trivially is not measurable here):
                if len(p.ads) >= 1:
                    nontrivial += 1
                if len(samples) < 6 and len(p.ads) >= 2 and pid % 97 == 0:
                    samples.append("konst: %s  ||  std: %s  (expect %s; %d inputs x n)" % (p.exprs()[0], p.exprs()[1], exp, ev))
                bad = None
                if panics:
                    bad = ("panic", "%d evaluations panicked" % panics)
                elif exp == "S" and (h_only or neither):
                    bad = ("differs-from-std", "%d of %d evaluations differ from the std chain" % (h_only + neither, ev))
                elif exp == "H" and (s_only or neither):
                    bad = ("differs-from-documented-exception", "%d of %d evaluations differ from the hoisted-reversal chain (documented enumerate/rposition behaviour)" % (s_only + neither, ev))
                elif exp.startswith("K1") and neither:
                    bad = ("differs-from-std-and-from-K1-prediction", "%d of %d evaluations equal neither the std chain nor the value known finding K1 predicts" % (neither, ev))
                if p.trace:
                    hist["trace-family"] = hist.get("trace-family", 0) + ev
                if bad:
                    out.fail("%s%s:%s" % ("closure-calls:" if p.trace else "", bad[0], "+".join(p.names())), "iterator DSL", "program %d: %s | first: %s" % (pid, p.exprs()[0], detail[:500]), bad[1], "std: " + p.exprs()[1], "generated-program", cmd=b, source=src)
                elif k5:
                    out.failures.append({"sig": "K5:take-evaluates-one-more-upstream-element", "api": "iterator DSL", "input": "program %d: %s | first: %s" % (pid, p.exprs()[0], detail[:300]),
                                         "got": "%d of %d evaluations: the closures before take(n) are also called on the element after the n-th, exactly as the K5 model (take pulls and discards one more item) predicts" % (k5, ev),
                                         "want": "std: " + p.exprs()[1], "engine": "generated-program", "variant": "", "sub": "", "cmd": b, "count_for_sig": k5})
                elif exp.startswith("K1") and h_only:
                    k1_seen[exp] = k1_seen.get(exp, 0) + h_only
                    out.failures.append({"sig": exp, "api": "iterator DSL", "input": "program %d: %s | first: %s" % (pid, p.exprs()[0], detail[:300]), "got": "%d of %d evaluations equal the hoisted-reversal chain instead of std" % (h_only, ev),
                                         "want": "std: " + p.exprs()[1], "engine": "generated-program", "variant": "", "sub": "", "cmd": b, "count_for_sig": h_only})
            elif f[0] == "C":
                pid, ii, bits = int(f[1]), int(f[2]), int(f[3])
                detail = f[4] if len(f) > 4 else ""
                p, state = ccs[pid]
                exp = p.expectation()
                evals += 1
                hist["collect_const!"] = hist.get("collect_const!", 0) + 1
                if ii == 3 and len(p.ads) >= 1:
                    nontrivial += 1
                ok = (bits & 1) if exp == "S" else ((bits & 2) if exp == "H" else bits != 0)
                if not ok:
                    out.fail("collect_const-differs:%s" % "+".join(p.names()), "collect_const!", "cc program %d input %d: %s | %s" % (pid, ii, ", ".join([a.k for a in p.ads]), detail[:400]), "differs", "the collected std chain", "generated-program", cmd=b, source=src)
                elif exp.startswith("K1") and bits == 2:
                    out.failures.append({"sig": exp, "api": "collect_const!", "input": "cc program %d input %d: %s | %s" % (pid, ii, ", ".join([a.k for a in p.ads]), detail[:300]), "got": "equals the hoisted-reversal chain instead of std", "want": "std chain",
                                         "engine": "generated-program", "variant": "", "sub": "", "cmd": b, "count_for_sig": 1})
    evals += run_double_reversal(cx, out, hist)
    evals += run_argument_expressions(cx, out, hist)
    out.add_counts("generated-programs", evals, "c10-programs", nontrivial, samples,
                   rule="one evaluation = one generated program (konst eval!/for_each!/collect_const! chain) on one input, compared with the identical std method chain and, when the chain reverses, with the std chain whose reversal is hoisted to the source (three-way oracle S/H/K1, DESIGN.md §6/C10); distinct_nontrivial = number of distinct generated programs with at least one adapter",
                   exhaustive="every type-correct chain of depth <= %d (quick tier: plus every depth-3 chain containing rev() with the for_each/fold consumers) over {copied,map,map-to-pair,filter,filter_map,flat_map,flatten,enumerate,zip(shorter|longer),skip,take,skip_while,take_while,rev} x 5 sources (slice, range, inclusive range, slice::iter_copied, nested slice+flatten) x every consumer (%d programs) + %d seeded random chains of depth %s; each over all arrays of length <= 4 over {0,1,4,6} (341; nested source: 91) x n in 0..=3; %d collect_const! programs x 4-6 const inputs" % (3 if thorough else 2, exhaustive_n, nrand, "4-6" if thorough else "3-5", len(ccs)),
                   hist=hist)
    out.counters["programs_generated"] = len(progs) + len(ccs)
    out.counters["programs_failed_to_compile"] = compile_fail_programs
