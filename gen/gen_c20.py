"""C20 (compile-time half) – str_concat!, str_join!, string::from_iter!, slice_concat! equal
<[&str]>::concat / join / collect::<String> / <[&[T]]>::concat.

The macros need constants, so every case is a generated `const` item evaluated by rustc and then
compared at run time with the std result computed from the same literals. A length pre-computation
that disagrees with the bytes written shows up as a const-evaluation error (a failure for a valid
program) or as a wrong string.
"""
import itertools
import random

from gcommon import Ctx, first_error, rs_str
import kv

PIECES = ["", "a", "ñ", "個🙂", "ab"]
SEPS_STR = ["", ",", "ñ", "🙂🙂"]
SEPS_CHR = [",", "ñ", "🙂"]

PRELUDE = r'''
#![allow(unused, clippy::all)]
static mut EVALS: u64 = 0;
fn chk_str(id: usize, what: &str, k: &'static str, s: String) {
    unsafe { EVALS += 1; }
    if core::str::from_utf8(k.as_bytes()).is_err() { println!("FAIL\t{}\t{}\tinvalid UTF-8 {:?}\t{:?}", id, what, k.as_bytes(), s); return; }
    if k != s { println!("FAIL\t{}\t{}\t{:?}\t{:?}", id, what, k, s); }
}
fn chk_arr<T: PartialEq + core::fmt::Debug>(id: usize, what: &str, k: &[T], s: Vec<T>) {
    unsafe { EVALS += 1; }
    if k != &s[..] { println!("FAIL\t{}\t{}\t{:?}\t{:?}", id, what, k, s); }
}
'''


def chr_lit(c):
    return "'%s'" % ("\\'" if c == "'" else c)


def gen_cases(rnd, thorough):
    lists = []
    for n in range(0, 5):
        lists.extend(itertools.product(PIECES, repeat=n))
    cases = []  # (kind, rust const expr, rust std expr, description)
    frac = 1.0 if thorough else 0.10
    cid = 0
    for li, lst in enumerate(lists):
        arr = "[%s]" % ", ".join(rs_str(p) for p in lst)
        typed_arr = "([%s] as [&str; %d])" % (", ".join(rs_str(p) for p in lst), len(lst))
        always = li < 40  # all lists of <= 2 pieces are always kept
        if always or rnd.random() < frac:
            cases.append(("str_concat!(&[..])", "konst::string::str_concat!(&%s)" % typed_arr, "%s.concat()" % typed_arr, "pieces=%r" % (lst,)))
        for sep in SEPS_STR:
            if always or rnd.random() < frac:
                cases.append(("str_join!(str sep)", "konst::string::str_join!(%s, &%s)" % (rs_str(sep), typed_arr), "%s.join(%s)" % (typed_arr, rs_str(sep)), "sep=%r pieces=%r" % (sep, lst)))
        for sep in SEPS_CHR:
            if always or rnd.random() < frac:
                cases.append(("str_join!(char sep)", "konst::string::str_join!(%s, &%s)" % (chr_lit(sep), typed_arr), "%s.join(%s)" % (typed_arr, rs_str(sep)), "sep=%r pieces=%r" % (sep, lst)))
        if always or rnd.random() < frac:
            cases.append(("from_iter!(&[&str])", "konst::string::from_iter!(&%s)" % typed_arr, "%s.iter().copied().collect::<String>()" % typed_arr, "pieces=%r" % (lst,)))
        if always or rnd.random() < frac / 2:
            cases.append(("from_iter!(rev)", "konst::string::from_iter!(&%s, rev())" % typed_arr, "%s.iter().rev().copied().collect::<String>()" % typed_arr, "pieces=%r" % (lst,)))
            cases.append(("from_iter!(filter)", "konst::string::from_iter!(&%s, filter(|s| s.len() != 1))" % typed_arr, "%s.iter().filter(|s| s.len() != 1).copied().collect::<String>()" % typed_arr, "pieces=%r" % (lst,)))
            cases.append(("from_iter!(flat_map chars)", "konst::string::from_iter!(&%s, flat_map(|s| konst::string::chars(s)))" % typed_arr, "%s.iter().flat_map(|s| s.chars()).collect::<String>()" % typed_arr, "pieces=%r" % (lst,)))
            cases.append(("from_iter!(flat_map pair)", "konst::string::from_iter!(&%s, flat_map(|s| &[*s, \"-\"]))" % typed_arr, "%s.iter().flat_map(|s| [*s, \"-\"]).collect::<String>()" % typed_arr, "pieces=%r" % (lst,)))
    # char element kinds
    chars = ["a", "ñ", "個", "🙂", "\\0"]
    # one char at every bit-width boundary of the code point (length formulas are written over those)
    edge_chars = ["\\u{7f}", "\\u{80}", "\\u{3ff}", "\\u{400}", "\\u{7ff}", "\\u{800}", "\\u{fff}", "\\u{1000}", "\\u{7fff}", "\\u{8000}", "\\u{d7ff}", "\\u{e000}", "\\u{ffff}", "\\u{10000}", "\\u{1ffff}",
                  "\\u{20000}", "\\u{fffff}", "\\u{100000}", "\\u{10ffff}"]
    clists = []
    for n in range(0, 4):
        clists.extend(itertools.product(chars, repeat=n))
    for lst in clists:
        if len(lst) <= 1 or rnd.random() < (1.0 if thorough else 0.25):
            arr = "([%s] as [char; %d])" % (", ".join("'%s'" % c for c in lst), len(lst))
            cases.append(("str_concat!(&[char])", "konst::string::str_concat!(&%s)" % arr, "%s.iter().collect::<String>()" % arr, "chars=%r" % (lst,)))
            cases.append(("from_iter!(&[char])", "konst::string::from_iter!(&%s, copied())" % arr, "%s.iter().collect::<String>()" % arr, "chars=%r" % (lst,)))
    for c in edge_chars:
        for lst in ((c,), ("a", c), (c, c, "ñ")):
            arr = "([%s] as [char; %d])" % (", ".join("'%s'" % x for x in lst), len(lst))
            cases.append(("str_concat!(&[char])", "konst::string::str_concat!(&%s)" % arr, "%s.iter().collect::<String>()" % arr, "chars=%r" % (lst,)))
            cases.append(("from_iter!(&[char])", "konst::string::from_iter!(&%s, copied())" % arr, "%s.iter().collect::<String>()" % arr, "chars=%r" % (lst,)))
        pieces = '(["x", "", "yz"] as [&str; 3])'
        cases.append(("str_join!(char sep)", "konst::string::str_join!('%s', &%s)" % (c, pieces), "%s.join(&'%s'.to_string())" % (pieces, c), "sep=%s pieces=x,,yz" % c))
        cases.append(("str_join!(&char sep)", "konst::string::str_join!(&'%s', &%s)" % (c, pieces), "%s.join(&'%s'.to_string())" % (pieces, c), "sep=&%s pieces=x,,yz" % c))
        cases.append(("str_join!(str sep)", "konst::string::str_join!(\"%s\", &%s)" % (c, pieces), "%s.join(\"%s\")" % (pieces, c), "sep=str %s pieces=x,,yz" % c))
    # long lists (a helper that recurses per piece meets the const evaluator's stack-frame limit at ~126 pieces)
    for n in (125, 126, 130, 300):
        outer = "&[%s]" % ", ".join(["&[1, 2]", "&[]", "&[7]"][i % 3] for i in range(n))
        cases.append(("slice_concat!(u8)", "&konst::slice::slice_concat!(u8, %s)" % outer, "{ let o: &[&[u8]] = %s; o.concat() }" % outer, "outer=%d inner slices" % n))
        parr = "([%s] as [&str; %d])" % (", ".join(rs_str(["a", "", "ñ", "bc"][i % 4]) for i in range(n)), n)
        cases.append(("str_concat!(&[..])", "konst::string::str_concat!(&%s)" % parr, "%s.concat()" % parr, "pieces=%d strings" % n))
        cases.append(("str_join!(str sep)", "konst::string::str_join!(\", \", &%s)" % parr, "%s.join(\", \")" % parr, "sep=', ' pieces=%d strings" % n))
        cases.append(("from_iter!(&[&str])", "konst::string::from_iter!(&%s)" % parr, "%s.iter().copied().collect::<String>()" % parr, "pieces=%d strings" % n))
    for rng, rev in (("'a'..='e'", False), ("'\\u{D7FE}'..='\\u{E001}'", False), ("'x'..'x'", False), ("'a'..='e'", True)):
        cases.append(("from_iter!(char range)", "konst::string::from_iter!(%s%s)" % (rng, ", rev()" if rev else ""), "(%s)%s.collect::<String>()" % (rng, ".rev()" if rev else ""), rng))
    # slice_concat!
    inner_u8 = ["&[]", "&[1]", "&[2, 3]", "&[255, 0, 7]"]
    for n in range(0, 4):
        for combo in itertools.product(inner_u8, repeat=n):
            if n <= 1 or rnd.random() < (1.0 if thorough else 0.3):
                outer = "&[%s]" % ", ".join(combo)
                for ty in ("u8", "u32"):
                    cases.append(("slice_concat!(%s)" % ty, "&konst::slice::slice_concat!(%s, %s)" % (ty, outer), "{ let o: &[&[%s]] = %s; o.concat() }" % (ty, outer), "outer=%s" % outer))
    inner_s = ['&[]', '&["a"]', '&["ñ", ""]', '&["個🙂", "b", "c"]']
    for n in range(0, 4):
        for combo in itertools.product(inner_s, repeat=n):
            if n <= 1 or rnd.random() < (1.0 if thorough else 0.3):
                outer = "&[%s]" % ", ".join(combo)
                cases.append(("slice_concat!(&str)", "&konst::slice::slice_concat!(&str, %s)" % outer, "{ let o: &[&[&str]] = %s; o.concat() }" % outer, "outer=%s" % outer))
    return cases


def render(batch, base):
    lines = [PRELUDE]
    main = ["fn main() {\n"]
    for j, (kind, kexpr, sexpr, desc) in enumerate(batch):
        cid = base + j
        if kind.startswith("slice_concat"):
            ety = kind[len("slice_concat!("):-1]
            lines.append("const K_%d: &[%s] = %s;\n" % (cid, ety, kexpr))
            main.append("    chk_arr(%d, %s, K_%d, %s);\n" % (cid, rs_str(kind), cid, sexpr))
        else:
            lines.append("const K_%d: &str = %s;\n" % (cid, kexpr))
            main.append("    chk_str(%d, %s, K_%d, %s);\n" % (cid, rs_str(kind), cid, sexpr))
    # named-const argument form
    main.append("    println!(\"N\\t{}\", unsafe { EVALS });\n}\n")
    return "".join(lines) + "".join(main)


NAMED = r'''
const P0: &[&str] = &["x", "", "ñy"];
const P1: &[char] = &['q', '個'];
const P2: &[&[u16]] = &[&[1, 2], &[], &[3]];
const fn pieces() -> &'static [&'static str] { &["f", "g"] }
const N0: &str = konst::string::str_concat!(P0);
const N1: &str = konst::string::str_join!("::", P0);
const N2: &str = konst::string::str_concat!(P1);
const N3: &str = konst::string::str_join!('/', P0);
const N4: [u16; 3] = konst::slice::slice_concat!(u16, P2);
const N5: &str = konst::string::str_concat!(pieces());
const N6: &str = konst::string::str_join!(", ", pieces());
const N7: &str = konst::string::from_iter!(P0);
fn named() {
    chk_str(900001, "str_concat!(named const)", N0, P0.concat());
    chk_str(900002, "str_join!(named const)", N1, P0.join("::"));
    chk_str(900003, "str_concat!(named char const)", N2, P1.iter().collect());
    chk_str(900004, "str_join!(char sep, named const)", N3, P0.join("/"));
    chk_arr(900005, "slice_concat!(named const)", &N4, P2.concat());
    chk_str(900006, "str_concat!(const fn call)", N5, pieces().concat());
    chk_str(900007, "str_join!(const fn call)", N6, pieces().join(", "));
    chk_str(900008, "from_iter!(named const)", N7, P0.concat());
}
'''


# caller-side constants whose names a macro might use for its own helper items: item names are not hygienic,
# so a helper const declared in the same block as the (expanded) argument captures the caller's name
HYGIENE_NAMES = ["STR", "LEN", "CONC", "ARR", "ARRAY", "SLICE", "SLICES", "SEP", "OUT", "ARGS", "S", "N", "L", "LENGTH", "RET", "ITEMS", "BUF", "CAP", "I", "X", "ITER", "LIST", "STRS", "CHARS", "TOTAL_LEN",
                 "CONCAT", "JOINED", "BYTES", "UTF8", "TMP", "VAL", "THIS", "A", "B", "C", "T", "U", "RES", "ACC", "INPUT", "OUTPUT"]


def hygiene_program(name):
    return (PRELUDE + "const %(n)s: &str = \"fo\";\nmod other { pub const %(n)s: char = 'ñ'; }\n"
            "const H0: &str = konst::string::str_concat!(&[%(n)s, \"bar\"]);\n"
            "const H1: &str = konst::string::str_join!(%(n)s, &[\"a\", \"\", \"b\"]);\n"
            "const H2: &str = konst::string::str_join!(\",\", &[%(n)s, %(n)s]);\n"
            "const H3: &str = konst::string::from_iter!(&[%(n)s, \"z\"]);\n"
            "const H4: [&str; 2] = konst::slice::slice_concat!(&str, &[&[%(n)s], &[\"q\"]]);\n"
            "const H5: &str = konst::string::str_concat!(&['a', other::%(n)s]);\n"
            "const H6: &str = konst::string::str_join!(other::%(n)s, &[%(n)s, \"x\"]);\n"
            "fn main() {\n"
            "    chk_str(0, \"str_concat!(&[%(n)s, ..])\", H0, [%(n)s, \"bar\"].concat());\n"
            "    chk_str(1, \"str_join!(%(n)s, ..)\", H1, [\"a\", \"\", \"b\"].join(%(n)s));\n"
            "    chk_str(2, \"str_join!(.., &[%(n)s, %(n)s])\", H2, [%(n)s, %(n)s].join(\",\"));\n"
            "    chk_str(3, \"from_iter!(&[%(n)s, ..])\", H3, [%(n)s, \"z\"].concat());\n"
            "    chk_arr(4, \"slice_concat!(.., &[&[%(n)s], ..])\", &H4, vec![%(n)s, \"q\"]);\n"
            "    chk_str(5, \"str_concat!(&[.., other::%(n)s])\", H5, ['a', other::%(n)s].iter().collect());\n"
            "    chk_str(6, \"str_join!(other::%(n)s, ..)\", H6, [%(n)s, \"x\"].join(&other::%(n)s.to_string()));\n"
            "    println!(\"N\\t{}\", unsafe { EVALS });\n}\n") % {"n": name}


def run_hygiene(cx, out, hist):
    srcs = [cx.write("c20_hyg_%s.rs" % n, hygiene_program(n)) for n in HYGIENE_NAMES]
    comp = cx.compile_many(srcs)
    evals = 0
    runnable = []
    for n, src, (rc, se, outp) in zip(HYGIENE_NAMES, srcs, comp):
        if rc is None:
            raise kv.Inconclusive("watchdog: rustc did not finish on %s" % src)
        if rc != 0:
            out.fail("const-eval-error:caller-constant-name-captured", "concat macros", "caller constant named %s passed to str_concat!/str_join!/from_iter!/slice_concat! (%s)" % (n, src), first_error(se, 3)[:300], "evaluates like the std concat/join of the same constants", "rustc-const-eval", cmd="rustc " + src, source=src)
        else:
            runnable.append((n, src, outp))
    for (n, src, b), (rc, so, se) in zip(runnable, cx.run_many([b for _, _, b in runnable])):
        if rc != 0:
            raise kv.Inconclusive("generated program %s exited with %s: %s" % (b, rc, (se or "")[-300:]))
        for line in so.splitlines():
            f = line.split("\t")
            if f[0] == "FAIL":
                out.fail("differs:" + f[2], f[2], "caller constant named %s" % n, f[3][:200], f[4][:200], "generated-program", cmd=b, source=src)
            elif f[0] == "N":
                evals += int(f[1])
    hist["caller-constant-names"] = len(HYGIENE_NAMES)
    return evals


def cstr_const_program():
    """CStr conversions evaluated by rustc's const evaluator (which checks every memory access): contents of every
    length 0..=17 (both parities; the nul is the last byte of its allocation) and CStrs cut out of a longer buffer."""
    body = [PRELUDE, "use core::ffi::CStr;\nuse konst::ffi::cstr;\n"]
    calls = []
    n = 0
    contents = ["abcdefghijklmnopq"[:k] for k in range(0, 18)] + ["\\xc3\\xb1", "a\\xc3\\xb1", "\\xff", "a\\xff", "\\xf0\\x9f\\x99\\x82"]
    for c in contents:
        for form, mk in (("from_bytes_with_nul", 'match cstr::from_bytes_with_nul(b"%s\\0") { Ok(x) => x, Err(_) => panic!() }' % c),
                         ("from_bytes_until_nul", 'match cstr::from_bytes_until_nul(b"%s\\0") { Ok(x) => x, Err(_) => panic!() }' % c),
                         ("from_bytes_until_nul(longer buffer)", 'match cstr::from_bytes_until_nul(b"%s\\0xy\\0") { Ok(x) => x, Err(_) => panic!() }' % c),
                         ("std CStr", 'match CStr::from_bytes_with_nul(b"%s\\0") { Ok(x) => x, Err(_) => panic!() }' % c)):
            body.append("const CS_%d: &CStr = %s;\n" % (n, mk))
            body.append("const CB_%d: &[u8] = cstr::to_bytes(CS_%d);\nconst CN_%d: &[u8] = cstr::to_bytes_with_nul(CS_%d);\n" % (n, n, n, n))
            body.append("const CT_%d: Option<&str> = match cstr::to_str(CS_%d) { Ok(s) => Some(s), Err(_) => None };\n" % (n, n))
            d = "%s content=b\\\"%s\\\"" % (form, c.replace("\\", "\\\\"))
            calls.append('    chk_arr(%d, "cstr::to_bytes(const) %s", CB_%d, CS_%d.to_bytes().to_vec());\n' % (n, d, n, n))
            calls.append('    chk_arr(%d, "cstr::to_bytes_with_nul(const) %s", CN_%d, CS_%d.to_bytes_with_nul().to_vec());\n' % (n, d, n, n))
            calls.append('    chk_arr(%d, "cstr::to_str(const) %s", &[CT_%d], vec![CS_%d.to_str().ok()]);\n' % (n, d, n, n))
            calls.append('    chk_arr(%d, "cstr constructor(const) %s", CS_%d.to_bytes(), b"%s".to_vec());\n' % (n, d, n, c))
            n += 1
    return "".join(body) + "fn main() {\n" + "".join(calls) + "    println!(\"N\\t{}\", unsafe { EVALS });\n}\n", n


def run_cstr(cx, out, hist):
    text, n = cstr_const_program()
    src = cx.write("c20_cstr.rs", text)
    (rc, se, outp), = cx.compile_many([src])
    if rc is None:
        raise kv.Inconclusive("watchdog: rustc did not finish on %s" % src)
    if rc != 0:
        out.fail("const-eval-error:cstr-conversions", "cstr::to_bytes/to_bytes_with_nul/to_str", "CStr constants of content length 0..=17 and non-UTF-8 contents (%s)" % src, first_error(se, 3)[:300], "evaluate like CStr::to_bytes / to_bytes_with_nul / to_str", "rustc-const-eval", cmd="rustc " + src, source=src)
        return 0
    (rc, so, se), = cx.run_many([outp])
    if rc != 0:
        raise kv.Inconclusive("generated program %s exited with %s: %s" % (outp, rc, (se or "")[-300:]))
    evals = 0
    for line in so.splitlines():
        f = line.split("\t")
        if f[0] == "FAIL":
            out.fail("differs:" + f[2].split("(const)")[0] + "(const)", f[2], f[2], f[3][:200], f[4][:200], "generated-program", cmd=outp, source=src)
        elif f[0] == "N":
            evals += int(f[1])
    hist["cstr-constants"] = n
    return evals


def run(out, tier, seed):
    thorough = tier == "thorough"
    cx = Ctx("c20")
    rnd = random.Random(seed * 13 + 1)
    cases = gen_cases(rnd, thorough)
    per = 250
    batches = [cases[i:i + per] for i in range(0, len(cases), per)]
    srcs = []
    for bi, b in enumerate(batches):
        text = render(b, bi * per)
        if bi == 0:
            text = text.replace("fn main() {\n", NAMED + "fn main() {\n    named();\n", 1)
        srcs.append(cx.write("c20_%03d.rs" % bi, text))
    comp = cx.compile_many(srcs)
    bins = []
    hist = {}
    for bi, ((rc, se, outp), src) in enumerate(zip(comp, srcs)):
        if rc is None:
            raise kv.Inconclusive("watchdog: rustc did not finish on %s" % src)
        if rc != 0:
            # a valid const program that does not evaluate: find which consts fail
            import re
            names = sorted(set(re.findall(r"const (K_\d+)", se or "")))
            ids = [int(n[2:]) for n in names][:10]
            if not ids:
                out.fail("compile-error:c20-batch", "concat macros", src, first_error(se)[:300], "valid constant programs compile", "rustc", cmd="rustc " + src, source=src)
            for cid in ids:
                kind, kexpr, sexpr, desc = cases[cid]
                out.fail("const-eval-error:" + kind, kind, "%s | %s" % (desc, kexpr[:300]), first_error(se)[:300], "evaluates to " + sexpr[:120], "rustc-const-eval", cmd="rustc " + src, source=src)
            continue
        bins.append((src, outp))
    results = cx.run_many([b for _, b in bins])
    evals = 0
    for (src, b), (rc, so, se) in zip(bins, results):
        if rc != 0:
            raise kv.Inconclusive("generated program %s exited with %s: %s" % (b, rc, (se or "")[-300:]))
        for line in so.splitlines():
            f = line.split("\t")
            if f[0] == "FAIL":
                cid = int(f[1])
                desc = cases[cid][3] if cid < len(cases) else f[2]
                sig = "C01:invalid-utf8" if f[3].startswith("invalid UTF-8") else "differs:" + f[2]
                out.fail(sig, f[2], "%s | %s" % (desc, (cases[cid][1] if cid < len(cases) else "")[:300]), f[3][:200], f[4][:200], "generated-program", cmd=b, source=src)
            elif f[0] == "N":
                evals += int(f[1])
    evals += run_hygiene(cx, out, hist)
    evals += run_cstr(cx, out, hist)
    for kind, _, _, _ in cases:
        hist[kind] = hist.get(kind, 0) + 1
    nontrivial = sum(1 for c in cases if ("pieces=" in c[3] and c[3].count("'") >= 4) or "outer=" in c[3] or "chars=" in c[3])
    samples = ["const K: &str = %s;  vs  %s" % (c[1][:120], c[2][:100]) for c in cases[45:48]] + ["const K: &[u8] = %s" % cases[-30][1][:120]]
    out.add_counts("generated-programs", evals, "c20-consts", nontrivial, samples,
                   rule="one evaluation = one generated `const` item (str_concat!/str_join!/string::from_iter!/slice_concat!) evaluated by rustc and compared at run time with <[&str]>::concat / join / collect::<String> / <[&[T]]>::concat on the same literals (+ from_utf8 of the result); distinct_nontrivial = number of distinct argument lists with >= 2 pieces, char lists and slice_concat! lists",
                   exhaustive="piece lists of 0..=4 pieces over {\"\",a,ñ,個🙂,ab} (all 781 at the thorough tier, all lists of <= 2 pieces + a seeded 10%% otherwise) x {concat, join with 4 str and 3 char separators, from_iter! plain/rev/filter/flat_map}; char lists of 0..=3 over {a,ñ,個,🙂,NUL}; char ranges incl. the surrogate gap; slice_concat! of u8/u32/&str over 0..=3 inner slices incl. empty outer and inner; named-const and const-fn argument forms; %d caller-side constant names (STR, LEN, CONC, ...) x 7 macro forms (item-name hygiene); cstr::to_bytes / to_bytes_with_nul / to_str as `const` items over CStrs of every content length 0..=17 + non-UTF-8 contents x 4 constructors (nul at the end of its allocation / inside a longer buffer)" % len(HYGIENE_NAMES))
    out.hist.update({"c20/" + k: v for k, v in hist.items()})
