"""C11 (program half) – no control flow inside a user closure can make an array-building macro
return an array with an unwritten element.

Hostile closure programs: each macro x each early exit x each position, one small program each
(some are rejected by rustc, which is an admissible outcome). The program classifies its own
outcome: `array` (the macro yielded an array although the exit fired: the refuting class), `panic`,
`loop` (logical-step watchdog inside the closure), `returned` (the exit left the enclosing function
or loop). For `collect_const!` the const evaluator is the monitor: an unwritten element in the final
value is a const-evaluation error; a program that compiles is checked against the std iterator.
"""
import random
import re

from gcommon import Ctx, first_error
import kv

TEMPLATE = r'''
#![allow(unused, unreachable_code, clippy::all)]
use std::sync::atomic::{AtomicU32, Ordering};
static FUEL: AtomicU32 = AtomicU32::new(0);
static FIRED: AtomicU32 = AtomicU32::new(0);
fn tick() { if FUEL.fetch_add(1, Ordering::Relaxed) > 1000 { panic!("WATCHDOG") } }
fn fired() { FIRED.store(1, Ordering::Relaxed); }
#[derive(Debug)] struct Z;
fn attempt() -> Option<[%(ty)s; %(n)d]> {
    'outer: loop {
        let a: [%(ty)s; %(n)d] = %(invocation)s;
        return Some(a);
    }
    None
}
fn main() {
    std::panic::set_hook(Box::new(|_| {}));
    let r = std::panic::catch_unwind(|| attempt());
    let fuel = FUEL.load(Ordering::Relaxed);
    let class = match r {
        Err(_) if fuel > 1000 => "loop",
        Err(_) => "panic",
        Ok(None) => "returned",
        Ok(Some(a)) => { std::mem::forget(a); if FIRED.load(Ordering::Relaxed) == 1 { "array" } else { "array-exit-not-reached" } }
    };
    println!("CLASS\t{}", class);
}
'''

EXITS = {
    "break": "break;",
    "continue": "continue;",
    "return": "return None;",
    "break-outer": "break 'outer;",
    "continue-outer": "continue 'outer;",
    "question-mark": "None::<u32>?;",
    "panic": "panic!(\"user panic\");",
}


def invocation(macro, n, pos, exit_stmt, ty="String"):
    body = "tick(); if %s == %d { fired(); %s } %s.to_string()" if ty == "String" else "tick(); if %s == %d { fired(); %s } { let _ = %s; Z }"
    arr = "[%s]" % ", ".join("%du32" % i for i in range(n))
    if macro == "map!":
        return "konst::array::map!(%s, |x| { %s })" % (arr, body % ("x", pos, exit_stmt, "x"))
    if macro == "map_!":
        return "konst::array::map_!(%s, |x| { %s })" % (arr, body % ("x", pos, exit_stmt, "x"))
    if macro == "map!(-> ret)":
        return "konst::array::map!(%s, |x| -> %s { %s })" % (arr, ty, body % ("x", pos, exit_stmt, "x"))
    if macro == "from_fn!":
        return "konst::array::from_fn!(|i| { %s })" % (body % ("i", pos, exit_stmt, "i"))
    if macro == "from_fn_!":
        return "konst::array::from_fn_!(|i| { %s })" % (body % ("i", pos, exit_stmt, "i"))
    if macro == "from_fn_!(typed)":
        return "konst::array::from_fn_!([%s; %d] => |i: usize| -> %s { %s })" % (ty, n, ty, body % ("i", pos, exit_stmt, "i"))
    raise ValueError(macro)


CC_TEMPLATE = r'''
#![allow(unused, unreachable_code, clippy::all)]
const IN: [u32; 4] = [1, 2, 3, 4];
const fn build() -> Option<&'static [u32]> {
    'outer: loop {
        const_body!();
    }
    None
}
'''


def cc_program(adapter, exit_stmt, pos):
    """collect_const! with an early exit inside an adapter closure (const context)"""
    clo = {"map": "map(|x| { if x == %d { %s } x * 2 })", "filter": "filter(|&x| { if x == %d { %s } x %% 2 == 0 })", "filter_map": "filter_map(|x| { if x == %d { %s } Some(x + 1) })",
           "take_while": "take_while(|&x| { if x == %d { %s } x < 4 })", "flat_map": "flat_map(|x| { if x == %d { %s } 0..x })"}[adapter] % (pos, exit_stmt)
    src = "#![allow(unused, unreachable_code, clippy::all)]\nconst IN: [u32; 4] = [1, 2, 3, 4];\nconst K: &[u32] = &konst::iter::collect_const!(u32 => &IN, copied(), %s);\n" % clo
    src += "fn main() { println!(\"CC\\t{:?}\", K); }\n"
    return src


# caller-side item names a macro might use for its own generic parameters / helper items (neither is hygienic)
HYGIENE_NAMES = ["CAP", "Ret", "N", "LEN", "T", "U", "I", "Item", "Iter", "ITER", "OUT", "ARR", "Array", "F", "Func", "Self_", "LENGTH", "COUNT", "Acc", "R", "C", "B", "X", "Y", "__N"]


def hygiene_program(name):
    return ("#![allow(unused, non_upper_case_globals, non_camel_case_types, clippy::all)]\n"
            "const %(n)s: usize = 4;\n"
            "mod ty { pub type %(n)s = u16; }\n"
            "const H0: [usize; 3] = konst::iter::collect_const!(usize => 1..4usize, map(|x| x * %(n)s));\n"
            "const H1: &[usize] = &konst::iter::collect_const!(usize => 0..10usize, map(|x| x * x), take(%(n)s));\n"
            "const H2: &[usize] = &konst::iter::collect_const!(usize => 0..%(n)s);\n"
            "const H3: &[ty::%(n)s] = &konst::iter::collect_const!(ty::%(n)s => &[1u16, 2, 3], copied(), filter(|x| *x as usize != %(n)s - 2));\n"
            "fn main() {\n"
            "    let w0: Vec<usize> = (1..4usize).map(|x| x * %(n)s).collect();\n"
            "    let w1: Vec<usize> = (0..10usize).map(|x| x * x).take(%(n)s).collect();\n"
            "    let w2: Vec<usize> = (0..%(n)s).collect();\n"
            "    let w3: Vec<u16> = [1u16, 2, 3].iter().copied().filter(|x| *x as usize != %(n)s - 2).collect();\n"
            "    let a: [usize; 2] = konst::array::map!([1usize, 2], |x| x + %(n)s);\n"
            "    let b: [usize; 2] = konst::array::from_fn!(|i| i * %(n)s);\n"
            "    let c: [usize; 2] = konst::array::map_!([1usize, 2], |x| x + %(n)s);\n"
            "    let d: [usize; 2] = konst::array::from_fn_!(|i| i * %(n)s);\n"
            "    let ok = H0[..] == w0[..] && H1 == &w1[..] && H2 == &w2[..] && H3 == &w3[..] && a == [5, 6] && b == [0, 4] && c == [5, 6] && d == [0, 4];\n"
            "    println!(\"HYG\\t{}\\t{:?} {:?} {:?} {:?} {:?} {:?} {:?} {:?}\", ok, H0, H1, H2, H3, a, b, c, d);\n"
            "}\n") % {"n": name}


def run_hygiene(cx, out, hist):
    srcs = [cx.write("c11_hyg_%s.rs" % n, hygiene_program(n)) for n in HYGIENE_NAMES]
    comp = cx.compile_many(srcs)
    runnable = []
    for n, src, (rc, se, outp) in zip(HYGIENE_NAMES, srcs, comp):
        if rc is None:
            raise kv.Inconclusive("watchdog: rustc did not finish on %s" % src)
        if rc != 0:
            out.fail("C11:caller-item-name-captured:compile-error", "collect_const!/map!/from_fn!", "caller items named %s used inside the macro arguments (%s)" % (n, src), first_error(se, 3)[:300], "the arrays std's iterators / <[T; N]>::map produce", "rustc-const-eval", cmd="rustc " + src, source=src)
        else:
            runnable.append((n, src, outp))
    for (n, src, b), (rc, so, se) in zip(runnable, cx.run_many([b for _, _, b in runnable])):
        m = re.search(r"HYG\t(\w+)\t(.*)", so or "")
        if rc != 0 or not m:
            raise kv.Inconclusive("generated program %s exited with %s: %s" % (b, rc, (se or "")[-300:]))
        if m.group(1) != "true":
            out.fail("C11:caller-item-name-captured", "collect_const!/map!/from_fn!", "caller items named %s used inside the macro arguments" % n, m.group(2)[:300], "[4, 8, 12] [0, 1, 4, 9] [0, 1, 2, 3] [1, 3] [5, 6] [0, 4] [5, 6] [0, 4]", "generated-program", cmd=b, source=src)
    hist["c11prog/caller-item-names"] = len(HYGIENE_NAMES)
    return len(HYGIENE_NAMES)


def run(out, tier, seed):
    cx = Ctx("c11")
    progs = []
    for macro in ("map!", "map_!", "map!(-> ret)", "from_fn!", "from_fn_!", "from_fn_!(typed)"):
        for ename, estmt in EXITS.items():
            for (n, pos) in ((3, 0), (3, 1), (3, 2), (1, 0), (2, 1)):
                progs.append((macro, ename, n, pos, TEMPLATE % {"n": n, "ty": "String", "invocation": invocation(macro, n, pos, estmt)}))
            # zero-sized element type: no storage is written, only the element counter guards the array
            for (n, pos) in ((3, 0), (3, 2), (1, 0)):
                progs.append((macro + "[ZST]", ename, n, pos, TEMPLATE % {"n": n, "ty": "Z", "invocation": invocation(macro, n, pos, estmt, "Z")}))
    ccs = []
    for adapter in ("map", "filter", "filter_map", "take_while", "flat_map"):
        for ename in ("break", "continue", "panic"):
            for pos in (1, 2, 4):
                ccs.append((adapter, ename, pos, cc_program(adapter, EXITS[ename], pos)))
    srcs = [cx.write("c11_%03d.rs" % i, p[4]) for i, p in enumerate(progs)] + [cx.write("c11_cc_%03d.rs" % i, p[3]) for i, p in enumerate(ccs)]
    comp = cx.compile_many(srcs)
    hist = {}
    runnable = []
    for i, (rc, se, outp) in enumerate(comp):
        if rc is None:
            raise kv.Inconclusive("watchdog: rustc did not finish on %s" % srcs[i])
        if i < len(progs):
            macro, ename, n, pos, _ = progs[i]
            if rc != 0:
                hist["%s/%s:compile-error" % (macro, ename)] = hist.get("%s/%s:compile-error" % (macro, ename), 0) + 1
            else:
                runnable.append((i, outp))
        else:
            adapter, ename, pos, _ = ccs[i - len(progs)]
            key = "collect_const!/%s/%s" % (adapter, ename)
            if rc != 0:
                hist[key + ":compile-error"] = hist.get(key + ":compile-error", 0) + 1
            else:
                runnable.append((i, outp))
    results = cx.run_many([b for _, b in runnable], timeout=600)
    evals = len(srcs)
    nontrivial = 0
    samples = []
    for (i, b), (rc, so, se) in zip(runnable, results):
        if rc is None:
            raise kv.Inconclusive("watchdog: %s did not finish (the in-closure step watchdog should have fired)" % b)
        if i < len(progs):
            macro, ename, n, pos, src = progs[i]
            m = re.search(r"CLASS\t(\S+)", so or "")
            if not m:
                raise kv.Inconclusive("program %s produced no verdict (rc=%s): %s" % (b, rc, (se or "")[-200:]))
            cls = m.group(1)
            hist["%s/%s:%s" % (macro, ename, cls)] = hist.get("%s/%s:%s" % (macro, ename, cls), 0) + 1
            nontrivial += 1
            if len(samples) < 6 and i % 29 == 0:
                samples.append("%s with `%s` at element %d of %d -> %s" % (macro, EXITS[ename], pos, n, cls))
            if cls == "array-exit-not-reached":
                out.fail("C11:array-returned-without-running-the-closure:%s" % macro, macro, "%s, N=%d, exit planted at element %d (%s)" % (macro, n, pos, srcs[i]), "the macro yielded an array although the closure was never run on element %d" % pos,
                         "the closure runs on every element before an array exists", "generated-program", cmd=b, source=srcs[i])
            if cls == "array":
                out.fail("C11:array-returned-after-early-exit:%s:%s" % (macro, ename), macro, "%s, N=%d, `%s` at element %d (%s)" % (macro, n, EXITS[ename], pos, srcs[i]), "the macro yielded an array although the closure left early at element %d" % pos,
                         "loop, panic, compile error or non-local exit", "generated-program", cmd=b, source=srcs[i])
        else:
            adapter, ename, pos, src = ccs[i - len(progs)]
            m = re.search(r"CC\t(.*)", so or "")
            cls = "const-array"
            hist["collect_const!/%s/%s:%s" % (adapter, ename, cls)] = hist.get("collect_const!/%s/%s:%s" % (adapter, ename, cls), 0) + 1
            nontrivial += 1
            # the const evaluator validated the final value (no unwritten element can survive it); record what it was
            if len(samples) < 8 and m:
                samples.append("collect_const!(.., %s with `%s` at x == %d) compiled to %s" % (adapter, EXITS[ename], pos, m.group(1)[:60]))
    evals += run_hygiene(cx, out, hist)
    out.add_counts("generated-programs", evals, "c11-programs", nontrivial, samples,
                   rule="one evaluation = one hostile-closure program (macro x early exit x position) compiled and, if it compiles, run: outcome classes compile-error / panic / loop (in-closure logical-step watchdog) / returned (non-local exit) are admissible, `array` after the exit fired is the refuting class; collect_const! programs are monitored by rustc's const evaluator (an unwritten element in the final value cannot pass validation); distinct_nontrivial = number of distinct programs that compiled and ran",
                   exhaustive="{map!, map!(-> Ret), map_!, from_fn!, from_fn_!, from_fn_!([T;N] => typed closure)} x {break, continue, return, break 'outer, continue 'outer, ?, panic!} x positions {first, middle, last of 3; only element of 1; last of 2}; collect_const! with {map, filter, filter_map, take_while, flat_map} x {break, continue, panic!} x 3 positions",
                   hist={"c11prog/" + k: v for k, v in hist.items()})
