"""C15 (program half) – destructure! shape programs over ledger elements.

Every supported pattern shape is generated as a small function over `Tok` elements (the move/drop
ledger of harness/src/ledger.rs, included verbatim): braced structs (path form, turbofish form,
with/without `: Ty` annotation, field renames, `_` fields), tuple structs and tuples of every arity
0..=16, arrays with every prefix/rest/suffix split of lengths 0..=5 (`rest @ ..`, bare `..`, `_`),
#[repr(packed)] / #[repr(C)] structs, generic and zero-sized fields. Oracle: bindings receive the
right ids; elements matched by `_` / `..` are dropped before the next statement; everything is
dropped exactly once (conservation audit).
"""
import itertools
import os
import random

from gcommon import Ctx, first_error, rs_str, miri_run_program
import re
from concurrent.futures import ThreadPoolExecutor
import kv

PRELUDE = r'''
#![allow(unused, clippy::all)]
include!("%(ledger)s");

static mut EVALS: u64 = 0;
fn check(name: &str, bound: Vec<u32>, want_bound: Vec<u32>, mut want_immediate: Vec<u32>) {
    unsafe { EVALS += 1; }
    let log = tail(0);
    let mark = log.iter().position(|e| *e == Ev::Mark("after")).unwrap_or(log.len());
    let mut early: Vec<u32> = log[..mark].iter().filter_map(|e| if let Ev::Dropped(id) = e { Some(*id) } else { None }).collect();
    early.sort();
    want_immediate.sort();
    if bound != want_bound { println!("FAIL\tbindings\t{}\t{:?}\t{:?}", name, bound, want_bound); }
    if early != want_immediate { println!("FAIL\tignored-not-dropped-immediately\t{}\t{:?}\t{:?}", name, early, want_immediate); }
    let a = audit(&take_log());
    if !a.clean(false) { println!("FAIL\tledger\t{}\tdouble_drops={:?} leaked={:?} unknown={:?} double_received={:?} corrupt={:?}\teach element exactly once", name, a.double_drops, a.leaked, a.unknown_drops, a.double_received, a.corrupt); }
}
fn t(i: u32) -> Tok { Tok::new(i) }
'''


def gen_shapes(rnd, thorough):
    """yield (name, type decls, body) where body evaluates to Vec<u32> of received ids and calls mark("after")"""
    shapes = []
    sid = [0]

    def add(name, decl, make, pattern, binds, ignored, extra_after=""):
        """make: expression building the value; binds: list of (var, id) in order; ignored: ids dropped immediately"""
        sid[0] += 1
        fn = "fn s%d() {\n    let _ = take_log();\n    let v = %s;\n    konst::destructure!{%s = v}\n    mark(\"after\");\n%s    let bound: Vec<u32> = vec![%s];\n    check(%s, bound, vec![%s], vec![%s]);\n}\n" % (
            sid[0], make, pattern, extra_after, ", ".join("%s.received().id" % v for v, _ in binds), rs_str(name), ", ".join(str(i) for _, i in binds), ", ".join(str(i) for i in ignored))
        shapes.append((sid[0], name, decl, fn))

    # tuples of every arity (all bound), and with `_` at each single position / all positions
    for n in range(0, 17):
        vals = "(%s%s)" % (", ".join("t(%d)" % i for i in range(n)), "," if n == 1 else "")
        vars_ = ["x%d" % i for i in range(n)]
        pat = "(%s%s)" % (", ".join(vars_), "," if n == 1 else "")
        add("tuple arity %d" % n, "", vals, pat, [(v, i) for i, v in enumerate(vars_)], [])
        if n >= 1:
            tty = "(%s%s)" % (", ".join(["Tok"] * n), "," if n == 1 else "")
            add("tuple arity %d annotated" % n, "", vals, "%s: %s" % (pat, tty), [(v, i) for i, v in enumerate(vars_)], [])
        for k in (range(n) if (n <= 5 or thorough) else [0, n // 2, n - 1]):
            p2 = ["_" if i == k else v for i, v in enumerate(vars_)]
            add("tuple arity %d `_` at %d" % (n, k), "", vals, "(%s%s)" % (", ".join(p2), "," if n == 1 else ""), [(v, i) for i, v in enumerate(vars_) if i != k], [k])
        if n >= 2:
            add("tuple arity %d all `_`" % n, "", vals, "(%s)" % ", ".join(["_"] * n), [], list(range(n)))
    # tuple structs of every arity
    for n in range(0, 17):
        decl = "struct T%d(%s);\n" % (n, ", ".join(["Tok"] * n))
        vals = "T%d(%s)" % (n, ", ".join("t(%d)" % i for i in range(n)))
        vars_ = ["x%d" % i for i in range(n)]
        add("tuple struct arity %d" % n, decl, vals, "T%d(%s)" % (n, ", ".join(vars_)), [(v, i) for i, v in enumerate(vars_)], [])
        if n >= 1:
            add("tuple struct arity %d annotated, `_` last" % n, decl, vals, "T%d(%s): T%d" % (n, ", ".join(vars_[:-1] + ["_"]), n), [(v, i) for i, v in enumerate(vars_[:-1])], [n - 1])
    # braced structs
    for n in range(0, 7):
        fs = ["f%d" % i for i in range(n)]
        decl = "struct B%d { %s }\n" % (n, ", ".join("%s: Tok" % f for f in fs))
        vals = "B%d { %s }" % (n, ", ".join("%s: t(%d)" % (f, i) for i, f in enumerate(fs)))
        add("braced struct %d fields" % n, decl, vals, "B%d{%s}" % (n, ", ".join(fs)), [(f, i) for i, f in enumerate(fs)], [])
        add("braced struct %d fields annotated + renamed" % n, decl, vals, "B%d{%s}: B%d" % (n, ", ".join("%s: r%d" % (f, i) for i, f in enumerate(fs)), n), [("r%d" % i, i) for i in range(n)], [])
        if n >= 1:
            # reversed field order in the pattern, `_` on alternating fields
            rev = list(reversed(list(enumerate(fs))))
            add("braced struct %d fields reversed order" % n, decl, vals, "B%d{%s}" % (n, ", ".join(f for _, f in rev)), [(f, i) for i, f in enumerate(fs)], [])
            pat = ", ".join(("%s: _" % f) if i % 2 == 0 else f for i, f in enumerate(fs))
            add("braced struct %d fields alternating `_`" % n, decl, vals, "B%d{%s}" % (n, pat), [(f, i) for i, f in enumerate(fs) if i % 2 == 1], [i for i in range(n) if i % 2 == 0])
    # generic / module path / turbofish / ZST fields / nested
    decl = "mod m { pub struct G<A, B> { pub a: A, pub b: B, pub z: () } }\n"
    add("generic struct, turbofish path", decl, "m::G { a: t(0), b: (t(1), t(2)), z: () }", "m::G::<Tok, (Tok, Tok)>{a, b, z}", [("a", 0)], [], extra_after="    konst::destructure!{(b0, b1) = b}\n    let _ = z;\n    let b0 = b0.received(); let b1 = b1.received(); assert_eq!((b0.id, b1.id), (1, 2)); drop((b0, b1));\n")
    add("generic struct, annotated", decl, "m::G { a: t(0), b: t(1), z: () }", "m::G{a, b, z: _}: m::G<Tok, Tok>", [("a", 0), ("b", 1)], [])
    decl = "struct Ph<T> { t: Tok, p: core::marker::PhantomData<T>, u: [Tok; 0] }\n"
    add("struct with PhantomData and empty-array fields", decl, "Ph::<u8> { t: t(0), p: core::marker::PhantomData, u: [] }", "Ph{t: tt, p: _, u: _}", [("tt", 0)], [])
    # packed / repr(C)
    decl = "#[repr(C, packed)] struct Pk { x: u8, a: Tok, y: u16, b: Tok, c: Tok }\n"
    add("repr(C,packed) all bound", decl, "Pk { x: 1, a: t(0), y: 2, b: t(1), c: t(2) }", "Pk{x, a, y, b, c}", [("a", 0), ("b", 1), ("c", 2)], [], extra_after="    assert_eq!((x, y), (1, 2));\n")
    add("repr(C,packed) `_` on droppable fields", decl, "Pk { x: 1, a: t(0), y: 2, b: t(1), c: t(2) }", "Pk{x: _, a: _, y: _, b, c: _}", [("b", 1)], [0, 2])
    decl = "#[repr(packed(2))] struct Pk2(u8, Tok, Tok);\n"
    add("repr(packed(2)) tuple struct", decl, "Pk2(9, t(0), t(1))", "Pk2(_, a, b)", [("a", 0), ("b", 1)], [])
    decl = "#[repr(C)] struct Rc { a: Tok, pad: u8, b: Tok }\n"
    add("repr(C) struct", decl, "Rc { a: t(0), pad: 3, b: t(1) }", "Rc{a, pad: _, b}", [("a", 0), ("b", 1)], [])
    # arrays: every prefix / rest / suffix split for lengths 0..=5
    for n in range(0, 6):
        vals = "[%s]" % ", ".join("t(%d)" % i for i in range(n))
        if n == 0:
            vals = "([] as [Tok; 0])"
        for pre in range(0, n + 1):
            for suf in range(0, n - pre + 1):
                mid = n - pre - suf
                pv = ["p%d" % i for i in range(pre)]
                sv = ["q%d" % i for i in range(suf)]
                base_binds = [(v, i) for i, v in enumerate(pv)] + [(v, pre + mid + i) for i, v in enumerate(sv)]
                if mid == 0:
                    add("array len %d: all %d elements bound" % (n, n), "", vals, "[%s]" % ", ".join(pv + sv), base_binds, []) if suf == 0 else None
                # bare `..` (rest dropped immediately)
                add("array len %d: %d prefix, `..`, %d suffix" % (n, pre, suf), "", vals, "[%s]" % ", ".join(pv + [".."] + sv), base_binds, list(range(pre, pre + mid)))
                # named rest
                extra = "    let rest: [Tok; %d] = rest;\n    let rest_ids: Vec<u32> = rest.into_iter().map(|x| x.received().id).collect();\n    let want_rest: Vec<u32> = vec![%s];\n    assert_eq!(rest_ids, want_rest);\n" % (mid, ", ".join(str(i) for i in range(pre, pre + mid)))
                add("array len %d: %d prefix, `rest @ ..`, %d suffix" % (n, pre, suf), "", vals, "[%s]" % ", ".join(pv + ["rest @ .."] + sv), base_binds, [], extra_after=extra)
        # `_` elements and parenthesised patterns
        if n >= 2:
            vars_ = ["a%d" % i for i in range(n)]
            pat = ["_" if i % 2 == 0 else v for i, v in enumerate(vars_)]
            add("array len %d: `_` on even positions" % n, "", vals, "[%s]" % ", ".join(pat), [(v, i) for i, v in enumerate(vars_) if i % 2 == 1], [i for i in range(n) if i % 2 == 0])
            pat = ["(%s)" % v for v in vars_]
            add("array len %d: parenthesised patterns" % n, "", vals, "[%s]: [Tok; %d]" % (", ".join(pat), n), [(v, i) for i, v in enumerate(vars_)], [])
    # array of tuples with nested destructuring afterwards
    add("array of pairs, then nested destructure", "", "[(t(0), t(1)), (t(2), t(3))]", "[first, second]", [], [], extra_after="    konst::destructure!{(a, b) = first}\n    konst::destructure!{(c, _) = second}\n    let ids = vec![a.received().id, b.received().id, c.received().id]; assert_eq!(ids, vec![0, 1, 2]);\n")
    return [s for s in shapes if s is not None]


# ---- by-reference / through-a-pointer forms: destructure! must only ever move out of an *owned* aggregate. These
# programs are expected not to compile (that verdict belongs to C17); if a form does compile it is executed over
# ledger elements and a field that is dropped twice (once as a binding, once with the still-owned aggregate) is a
# C15 violation observed at run time.
REF_DECLS = "struct P { a: Tok, b: Tok }\nstruct Q(Tok, Tok);\nstruct G<T> { a: T, b: T }\n"
REF_FORMS = [
    ("&mut braced struct", "fn f(v: &mut P) { konst::destructure!{P{a, b} = v} }", "let mut p = P { a: t(1), b: t(2) }; f(&mut p); drop(p);"),
    ("&mut self braced struct (Self path)", "impl P { fn f(&mut self) { konst::destructure!{Self{a, b} = self} } }", "let mut p = P { a: t(1), b: t(2) }; p.f(); drop(p);"),
    ("&mut tuple struct", "fn f(v: &mut Q) { konst::destructure!{Q(a, b) = v} }", "let mut p = Q(t(1), t(2)); f(&mut p); drop(p);"),
    ("&mut generic struct", "fn f(v: &mut G<Tok>) { konst::destructure!{G{a, b} = v} }", "let mut p = G { a: t(1), b: t(2) }; f(&mut p); drop(p);"),
    ("&mut generic struct, type form", "fn f(v: &mut G<Tok>) { konst::destructure!{G<Tok>{a, b} = v} }", "let mut p = G { a: t(1), b: t(2) }; f(&mut p); drop(p);"),
    ("&mut tuple annotated with the reference type", "fn f(v: &mut (Tok, Tok)) { konst::destructure!{(a, b): &mut (Tok, Tok) = v} }", "let mut p = (t(1), t(2)); f(&mut p); drop(p);"),
    ("&mut tuple", "fn f(v: &mut (Tok, Tok)) { konst::destructure!{(a, b) = v} }", "let mut p = (t(1), t(2)); f(&mut p); drop(p);"),
    ("&mut array", "fn f(v: &mut [Tok; 2]) { konst::destructure!{[a, b] = v} }", "let mut p = [t(1), t(2)]; f(&mut p); drop(p);"),
    ("&mut array annotated with the reference type", "fn f(v: &mut [Tok; 2]) { konst::destructure!{[a, b]: &mut [Tok; 2] = v} }", "let mut p = [t(1), t(2)]; f(&mut p); drop(p);"),
    ("& braced struct", "fn f(v: &P) { konst::destructure!{P{a, b} = v} }", "let p = P { a: t(1), b: t(2) }; f(&p); drop(p);"),
    ("& tuple struct", "fn f(v: &Q) { konst::destructure!{Q(a, b) = v} }", "let p = Q(t(1), t(2)); f(&p); drop(p);"),
    ("& tuple annotated with the reference type", "fn f(v: &(Tok, Tok)) { konst::destructure!{(a, b): &(Tok, Tok) = v} }", "let p = (t(1), t(2)); f(&p); drop(p);"),
    ("& array", "fn f(v: &[Tok; 2]) { konst::destructure!{[a, b] = v} }", "let p = [t(1), t(2)]; f(&p); drop(p);"),
    ("Box<braced struct>", "fn f(v: Box<P>) { konst::destructure!{P{a, b} = v} }", "f(Box::new(P { a: t(1), b: t(2) }));"),
    ("Box<tuple struct>", "fn f(v: Box<Q>) { konst::destructure!{Q(a, b) = v} }", "f(Box::new(Q(t(1), t(2))));"),
    ("Rc<braced struct>", "fn f(v: std::rc::Rc<P>) { konst::destructure!{P{a, b} = v} }", "f(std::rc::Rc::new(P { a: t(1), b: t(2) }));"),
    ("&mut Box<braced struct>", "fn f(v: &mut Box<P>) { konst::destructure!{P{a, b} = v} }", "let mut p = Box::new(P { a: t(1), b: t(2) }); f(&mut p); drop(p);"),
]


def run_reference_forms(cx, out, ledger):
    srcs = []
    for i, (name, fn, body) in enumerate(REF_FORMS):
        text = PRELUDE % {"ledger": ledger} + REF_DECLS + fn + "\nfn main() {\n    std::panic::set_hook(Box::new(|_| {}));\n    unsafe { EVALS += 1; }\n    { %s }\n" % body
        text += "    let a = audit(&take_log());\n    if !a.clean(false) { println!(\"FAIL\\tledger\\t%s\\tdouble_drops={:?} leaked={:?} unknown={:?} double_received={:?} corrupt={:?}\\teach element exactly once\", a.double_drops, a.leaked, a.unknown_drops, a.double_received, a.corrupt); }\n" % name
        text += "    println!(\"N\\t{}\", unsafe { EVALS });\n}\n"
        srcs.append(cx.write("c15_ref_%02d.rs" % i, text))
    comp = cx.compile_many(srcs)
    rejected, ran = 0, 0
    for (name, fn, body), src, (rc, se, outp) in zip(REF_FORMS, srcs, comp):
        if rc is None:
            raise kv.Inconclusive("watchdog: rustc did not finish on %s" % src)
        if rc != 0:
            if "error: internal compiler error" in (se or ""):
                raise kv.Inconclusive("rustc ICE on %s" % src)
            rejected += 1
            continue
        # the form compiles: observe what it does with the elements
        (rrc, so, rse), = cx.run_many([outp])
        ran += 1
        bad = [l.split("\t") for l in (so or "").splitlines() if l.startswith("FAIL")]
        if rrc is not None and rrc < 0:
            out.fail("C15:destructure-through-reference:crash", "destructure!", "%s: %s" % (name, fn), "accepted, then killed by signal %d" % -rrc, "never moves out of a borrowed / pointed-to aggregate", "generated-program", cmd=outp, source=src)
        elif bad:
            out.fail("C15:destructure-through-reference:ledger", "destructure!", "%s: %s" % (name, fn), bad[0][3][:300], "never moves out of a borrowed / pointed-to aggregate: each element dropped exactly once", "generated-program", cmd=outp, source=src)
        elif rrc != 0:
            raise kv.Inconclusive("generated program %s exited with %s: %s" % (outp, rrc, (rse or "")[-300:]))
    out.counters["reference_forms_rejected_by_rustc"] = rejected
    out.counters["reference_forms_accepted_and_executed"] = ran
    return ran


def run(out, tier, seed):
    thorough = tier == "thorough"
    cx = Ctx("c15")
    rnd = random.Random(seed)
    shapes = gen_shapes(rnd, thorough)
    ledger = os.path.join(kv.HARNESS, "src", "ledger.rs")
    per = 120
    batches = [shapes[i:i + per] for i in range(0, len(shapes), per)]
    srcs = []
    for bi, b in enumerate(batches):
        decls = []
        for _, _, d, _ in b:
            if d and d not in decls:
                decls.append(d)
        text = PRELUDE % {"ledger": ledger} + "".join(decls) + "".join(fn for _, _, _, fn in b)
        text += "fn main() {\n" + "".join("    s%d();\n" % sid for sid, _, _, _ in b) + "    println!(\"N\\t{}\", unsafe { EVALS });\n}\n"
        # ledger.rs starts with inner attributes/doc comments that are not allowed after items: strip via a module
        srcs.append(cx.write("c15_%03d.rs" % bi, text))
    comp = cx.compile_many(srcs)
    bins = []
    for bi, ((rc, se, outp), src) in enumerate(zip(comp, srcs)):
        if rc is None:
            raise kv.Inconclusive("watchdog: rustc did not finish on %s" % src)
        if rc != 0:
            # find the shapes that do not compile
            n = 0
            singles = []
            for sid, name, d, fn in batches[bi]:
                t = PRELUDE % {"ledger": ledger} + d + fn + "fn main() { s%d(); }\n" % sid
                singles.append((sid, name, cx.write("c15_single_%d.rs" % sid, t)))
            res = cx.compile_many([s for _, _, s in singles])
            for (sid, name, s), (rc2, se2, _) in zip(singles, res):
                if rc2 != 0 and n < 25:
                    n += 1
                    out.fail("compile-error:destructure shape", "destructure!", "%s (%s)" % (name, s), first_error(se2)[:300], "a supported pattern shape compiles", "rustc", cmd="rustc " + s, source=s)
            if n == 0:
                out.fail("compile-error:c15-batch", "destructure!", src, first_error(se)[:300], "valid programs compile", "rustc", cmd="rustc " + src, source=src)
            continue
        bins.append((src, outp))
    results = cx.run_many([b for _, b in bins])
    evals = 0
    for (src, b), (rc, so, se) in zip(bins, results):
        if rc is None:
            raise kv.Inconclusive("watchdog: %s did not finish" % b)
        if rc != 0:
            # a double free / abort inside a shape is an observation about the code under test
            if rc < 0:
                out.fail("process-crash:signal-%d" % -rc, "destructure!", "generated shape program %s" % b, "killed by signal %d: %s" % (-rc, (se or "")[-200:]), "runs to completion", "generated-program", cmd=b, source=src)
                continue
            raise kv.Inconclusive("generated program %s exited with %s: %s" % (b, rc, (se or "")[-300:]))
        for line in so.splitlines():
            f = line.split("\t")
            if f[0] == "FAIL":
                out.fail("C15:destructure-" + f[1], "destructure!", f[2], f[3][:300], f[4][:300], "generated-program", cmd=b, source=src)
            elif f[0] == "N":
                evals += int(f[1])
    # the same shape programs under Miri (destructure! is ptr::read-based: a second read of a moved-out
    # field, a missed field or a wrong offset in a packed struct is a double free / leak / unaligned
    # or uninitialised read there). The ledger's double-free protection is irrelevant: the shapes are valid.
    miri_evals = 0
    if bins:
        with ThreadPoolExecutor(max_workers=kv.NCPU) as ex:
            mres = list(ex.map(lambda sb: miri_run_program(cx, sb[0], os.path.basename(sb[0])[:-3]), bins))
        for (src, b), (rc, so, se) in zip(bins, mres):
            if rc is None:
                raise kv.Inconclusive("watchdog: Miri did not finish on %s" % src)
            ub = re.findall(r"error: Undefined Behavior: (.*)", se or "")
            if ub or "memory leaked" in (se or ""):
                msg = ub[0] if ub else "memory leaked (Miri leak checker)"
                out.fail("miri:" + msg[:110], "destructure!", "generated shape program %s under Miri" % src, msg, "no undefined behaviour, no leak", "miri-sb", cmd="cargo +nightly miri run (wrapper of %s)" % src, detail=(se or "")[-1500:], source=src)
                continue
            if rc != 0:
                if "error[E" in (se or "") or "could not compile" in (se or ""):
                    raise kv.Inconclusive("shape program does not build under Miri: %s" % first_error(se)[:300])
                out.fail("miri:abnormal-termination", "destructure!", "generated shape program %s under Miri" % src, "rc=%s %s" % (rc, (se or "")[-300:]), "runs to completion", "miri-sb", cmd="cargo +nightly miri run (wrapper of %s)" % src, source=src)
                continue
            for line in so.splitlines():
                f = line.split("\t")
                if f[0] == "FAIL":
                    out.fail("C15:destructure-" + f[1], "destructure!", f[2] + " (under Miri)", f[3][:300], f[4][:300], "miri-sb", cmd=src, source=src)
                elif f[0] == "N":
                    miri_evals += int(f[1])
        out.engines["miri:generated-programs"] = out.engines.get("miri:generated-programs", 0) + miri_evals
        out.evals += miri_evals
    evals += run_reference_forms(cx, out, ledger)
    samples = ["destructure!{%s} over ledger elements" % s[1] for s in shapes[::max(1, len(shapes) // 6)][:6]]
    out.add_counts("generated-programs", evals, "c15-shapes", len(shapes), samples,
                   rule="one evaluation = one generated destructure! shape function over ledger elements: bound variables must receive the right ids in order, elements matched by `_`/`..` must be dropped before the statement after the macro, and the conservation audit must be clean; distinct_nontrivial = number of distinct pattern shapes",
                   exhaustive="tuples and tuple structs of every arity 0..=16 (all bound, `_` at each position, all `_`, annotated), braced structs with 0..=6 fields (plain, annotated+renamed, reversed order, alternating `_`), generic/turbofish/module paths, PhantomData and empty-array fields, repr(C), repr(C,packed), repr(packed(2)), arrays of length 0..=5 with every prefix/rest/suffix split in the `..` and `rest @ ..` forms, `_` elements, parenthesised patterns, nested destructuring; %d by-reference / Box / Rc forms (expected to be rejected by rustc; executed over ledger elements whenever one compiles)" % len(REF_FORMS))
    out.counters["shapes_generated"] = len(shapes)
