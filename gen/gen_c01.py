"""C01 (compile-time half) – rustc's const evaluator as a sanitizer (DESIGN.md §2/E3).

A generated crate of `const` items that loop over inputs *inside* the const evaluator, calling the
safe konst functions and macro forms that sit on unsafe blocks and asserting the reference result
there. The oracle is rustc: undefined behaviour during const evaluation is `error[E0080]` with a
UB message; an `assert!` that fails is `E0080 ... evaluation panicked`. Every const returns the
number of calls it made; the compiled binary prints those counters (measured evaluations).
Expected panics (string slicing inside a char) are separate tiny programs whose *expected* outcome
is "evaluation panicked". Known finding K3 (deprecated ptr::is_null / nonnull::new on out-of-bounds
pointers under const evaluation) is exercised by its own programs.
"""
import os
import re

from gcommon import Ctx, first_error, rs_str
import kv

MAIN = r'''
#![allow(unused, long_running_const_eval, deprecated, clippy::all)]
use konst::{slice, string, Parser};
use konst::array::{ArrayBuilder, ArrayConsumer};
use core::mem::ManuallyDrop;

const BIG: [usize; 6] = [isize::MAX as usize, isize::MAX as usize + 1, usize::MAX / 4, usize::MAX / 4 + 1, usize::MAX - 1, usize::MAX];

const fn idx(len: usize, k: usize) -> usize { if k <= len + 2 { k } else { BIG[(k - len - 3) % 6] } }
const fn nidx(len: usize) -> usize { len + 3 + 6 }
const fn min(a: usize, b: usize) -> usize { if a < b { a } else { b } }

// ---------------------------------------------------------------- slices (shared + mut)
const fn slicing_u32() -> u64 {
    let full: [u32; 6] = [10, 11, 12, 13, 14, 15];
    let mut calls = 0u64;
    let mut len = 0;
    while len <= 6 {
        let s: &[u32] = slice::slice_up_to(&full, len);
        let mut a = 0;
        while a < nidx(len) {
            let i = idx(len, a);
            let r = slice::slice_from(s, i);
            assert!(r.len() == if i <= len { len - i } else { 0 });
            if !r.is_empty() { assert!(r[0] == 10 + i as u32); }
            let r = slice::slice_up_to(s, i);
            assert!(r.len() == min(i, len));
            match slice::get_from(s, i) { Some(x) => assert!(i <= len && x.len() == len - i), None => assert!(i > len) }
            match slice::get_up_to(s, i) { Some(x) => assert!(i <= len && x.len() == i), None => assert!(i > len) }
            match slice::get(s, i) { Some(x) => assert!(i < len && *x == 10 + i as u32), None => assert!(i >= len) }
            let (l, rr) = slice::split_at(s, i);
            assert!(l.len() == min(i, len) && l.len() + rr.len() == len);
            calls += 6;
            let mut b = 0;
            while b < nidx(len) {
                let j = idx(len, b);
                let r = slice::slice_range(s, i, j);
                let e = min(j, len);
                if i <= e { assert!(r.len() == e - i); if e > i { assert!(r[0] == 10 + i as u32 && r[e - i - 1] == 10 + e as u32 - 1); } } else { assert!(r.is_empty()); }
                match slice::get_range(s, i, j) { Some(x) => { assert!(i <= j && j <= len && x.len() == j - i); } None => assert!(!(i <= j && j <= len)) }
                calls += 2;
                b += 1;
            }
            a += 1;
        }
        len += 1;
    }
    calls
}
const fn slicing_mut() -> u64 {
    let mut calls = 0u64;
    let mut len = 0;
    while len <= 5 {
        let mut a = 0;
        while a < nidx(len) {
            let i = idx(len, a);
            let mut buf: [u64; 5] = [1, 2, 3, 4, 5];
            {
                let s: &mut [u64] = slice::slice_up_to_mut(&mut buf, len);
                let r = slice::slice_from_mut(s, i);
                let mut k = 0; while k < r.len() { r[k] = 100; k += 1; }
            }
            let mut k = 0; while k < 5 { assert!(buf[k] == if k >= i && k < len { 100 } else { k as u64 + 1 }); k += 1; }
            let mut buf: [u64; 5] = [1, 2, 3, 4, 5];
            {
                let s: &mut [u64] = slice::slice_up_to_mut(&mut buf, len);
                let (l, r) = slice::split_at_mut(s, i);
                let mut k = 0; while k < l.len() { l[k] = 7; k += 1; }
                let mut k = 0; while k < r.len() { r[k] = 9; k += 1; }
            }
            let mut k = 0; while k < 5 { assert!(buf[k] == if k < len { if k < i { 7 } else { 9 } } else { k as u64 + 1 }); k += 1; }
            calls += 4;
            let mut b = 0;
            while b < nidx(len) {
                let j = idx(len, b);
                let mut buf: [u64; 5] = [1, 2, 3, 4, 5];
                {
                    let s: &mut [u64] = slice::slice_up_to_mut(&mut buf, len);
                    let r = slice::slice_range_mut(s, i, j);
                    let mut k = 0; while k < r.len() { r[k] = 100; k += 1; }
                    match slice::get_range_mut(s, i, j) { Some(x) => assert!(i <= j && j <= len && x.len() == j - i), None => assert!(!(i <= j && j <= len)) }
                }
                let e = min(j, len);
                let mut k = 0; while k < 5 { assert!(buf[k] == if k >= i && k < e { 100 } else { k as u64 + 1 }); k += 1; }
                calls += 2;
                b += 1;
            }
            a += 1;
        }
        len += 1;
    }
    // first/last/split_first/split_last _mut, get_mut, try_into_array(_mut), as_chunks
    let mut buf = [1u8, 2, 3];
    if let Some(x) = slice::first_mut(&mut buf) { *x = 9; }
    if let Some(x) = slice::last_mut(&mut buf) { *x = 8; }
    if let Some((h, t)) = slice::split_first_mut(&mut buf) { *h += 1; t[0] += 1; }
    if let Some((l, i)) = slice::split_last_mut(&mut buf) { *l += 1; i[0] += 1; }
    if let Some(x) = slice::get_mut(&mut buf, 1) { *x += 10; }
    assert!(buf[0] == 11 && buf[1] == 13 && buf[2] == 9);
    let e: &mut [u8] = &mut [];
    assert!(slice::first_mut(e).is_none() && slice::split_last_mut(e).is_none());
    match slice::try_into_array_mut::<u8, 3>(&mut buf) { Ok(a) => a[2] = 0, Err(_) => panic!() }
    assert!(buf[2] == 0 && slice::try_into_array::<u8, 2>(&buf).is_err() && slice::try_into_array::<u8, 0>(&[]).is_ok());
    let (c, r) = slice::as_chunks::<u8, 2>(&buf); assert!(c.len() == 1 && c[0][1] == 13 && r.len() == 1);
    let (r, c) = slice::as_rchunks::<u8, 2>(&buf); assert!(c.len() == 1 && c[0][0] == 13 && r.len() == 1 && r[0] == 11);
    let z: [(); 5] = [(); 5];
    let (c, r) = slice::as_chunks::<(), 2>(&z); assert!(c.len() == 2 && r.len() == 1);
    assert!(slice::slice_from(&z, 3).len() == 2 && slice::slice_from(&z, usize::MAX).is_empty());
    calls + 14
}

// ---------------------------------------------------------------- strings
const STRS: &[&str] = &[@@STRS@@];
const fn is_boundary(b: &[u8], i: usize) -> bool { i == b.len() || (i < b.len() && (b[i] as i8) >= -0x40) }
const fn bytes_eq(a: &[u8], b: &[u8]) -> bool { if a.len() != b.len() { return false; } let mut i = 0; while i < a.len() { if a[i] != b[i] { return false; } i += 1; } true }
const fn naive_find(h: &[u8], n: &[u8]) -> Option<usize> {
    if n.len() > h.len() { return None; }
    let mut i = 0;
    while i + n.len() <= h.len() { if bytes_eq(slice::slice_range(h, i, i + n.len()), n) { return Some(i); } i += 1; }
    None
}
const fn naive_rfind(h: &[u8], n: &[u8]) -> Option<usize> {
    if n.len() > h.len() { return None; }
    let mut i = h.len() - n.len() + 1;
    while i > 0 { i -= 1; if bytes_eq(slice::slice_range(h, i, i + n.len()), n) { return Some(i); } }
    None
}
const fn opt_eq(a: Option<usize>, b: Option<usize>) -> bool { match (a, b) { (Some(x), Some(y)) => x == y, (None, None) => true, _ => false } }

const fn string_slicing() -> u64 {
    let mut calls = 0u64;
    let mut si = 0;
    while si < STRS.len() {
        let s = STRS[si];
        let b = s.as_bytes();
        let len = b.len();
        let mut a = 0;
        while a < nidx(len) {
            let i = idx(len, a);
            assert!(string::is_char_boundary(s, i) == is_boundary(b, i));
            match string::get_from(s, i) { Some(x) => assert!(is_boundary(b, i) && x.len() == len - i), None => assert!(!is_boundary(b, i)) }
            match string::get_up_to(s, i) { Some(x) => assert!(is_boundary(b, i) && x.len() == i), None => assert!(!is_boundary(b, i)) }
            calls += 3;
            // the clamping variants panic inside a char: only call them on boundaries / out of range
            if i >= len || is_boundary(b, i) {
                let r = string::str_from(s, i); assert!(r.len() == if i <= len { len - i } else { 0 });
                let r = string::str_up_to(s, i); assert!(r.len() == min(i, len));
                let (l, rr) = string::split_at(s, i); assert!(l.len() == min(i, len) && l.len() + rr.len() == len);
                calls += 3;
            }
            let mut bb = 0;
            while bb < nidx(len) {
                let j = idx(len, bb);
                match string::get_range(s, i, j) {
                    Some(x) => assert!(i <= j && j <= len && is_boundary(b, i) && is_boundary(b, j) && bytes_eq(x.as_bytes(), slice::slice_range(b, i, j))),
                    None => assert!(!(i <= j && j <= len && is_boundary(b, i) && is_boundary(b, j))),
                }
                if (i >= len || is_boundary(b, i)) && (j >= len || is_boundary(b, j)) {
                    let r = string::str_range(s, i, j);
                    if min(i, len) <= min(j, len) { assert!(bytes_eq(r.as_bytes(), slice::slice_range(b, i, j))); }
                    calls += 1;
                }
                calls += 1;
                bb += 1;
            }
            a += 1;
        }
        si += 1;
    }
    calls
}
const fn string_search() -> u64 {
    let mut calls = 0u64;
    let mut hi = 0;
    while hi < STRS.len() {
        let h = STRS[hi];
        let mut ni = 0;
        while ni < STRS.len() {
            let n = STRS[ni];
            if n.len() <= 7 {
                let (hb, nb) = (h.as_bytes(), n.as_bytes());
                let f = naive_find(hb, nb);
                assert!(opt_eq(string::find(h, n), f));
                assert!(opt_eq(slice::bytes_find(hb, nb), f));
                assert!(string::contains(h, n) == f.is_some());
                match string::find_skip(h, n) { Some(x) => assert!(x.len() == hb.len() - f.unwrap() - nb.len()), None => assert!(f.is_none()) }
                match string::find_keep(h, n) { Some(x) => assert!(x.len() == hb.len() - f.unwrap()), None => assert!(f.is_none()) }
                match string::split_once(h, n) { Some((a, b)) => assert!(a.len() == f.unwrap() && b.len() == hb.len() - f.unwrap() - nb.len()), None => assert!(f.is_none()) }
                if !n.is_empty() {
                    let r = naive_rfind(hb, nb);
                    assert!(opt_eq(string::rfind(h, n), r));
                    assert!(opt_eq(slice::bytes_rfind(hb, nb), r));
                    match string::rfind_skip(h, n) { Some(x) => assert!(x.len() == r.unwrap()), None => assert!(r.is_none()) }
                    match string::rfind_keep(h, n) { Some(x) => assert!(x.len() == r.unwrap() + nb.len()), None => assert!(r.is_none()) }
                    match string::rsplit_once(h, n) { Some((a, b)) => assert!(a.len() == r.unwrap() && b.len() == hb.len() - r.unwrap() - nb.len()), None => assert!(r.is_none()) }
                    calls += 5;
                }
                let sw = nb.len() <= hb.len() && bytes_eq(slice::slice_up_to(hb, nb.len()), nb);
                assert!(string::starts_with(h, n) == sw);
                match string::strip_prefix(h, n) { Some(x) => assert!(sw && x.len() == hb.len() - nb.len()), None => assert!(!sw) }
                let ew = nb.len() <= hb.len() && bytes_eq(slice::slice_from(hb, hb.len() - nb.len()), nb);
                assert!(string::ends_with(h, n) == ew);
                match string::strip_suffix(h, n) { Some(x) => assert!(ew && x.len() == hb.len() - nb.len()), None => assert!(!ew) }
                let t = string::trim_start_matches(h, n); assert!(t.len() <= h.len() && (n.is_empty() || !string::starts_with(t, n)));
                let t = string::trim_end_matches(h, n); assert!(t.len() <= h.len() && (n.is_empty() || !string::ends_with(t, n)));
                let t = string::trim_matches(h, n); assert!(t.len() <= h.len());
                calls += 13;
                // char patterns
                if let Some((c, rest)) = string::chars(n).next() {
                    if rest.as_str().is_empty() {
                        assert!(opt_eq(string::find(h, c), f));
                        assert!(string::starts_with(h, c) == sw && string::ends_with(h, c) == ew);
                        let _ = string::trim_matches(h, c);
                        let _ = slice::bytes_find(hb, &c);
                        calls += 5;
                    }
                }
            }
            ni += 1;
        }
        let t = string::trim(h); assert!(t.len() <= h.len());
        let t = string::trim_start(h); assert!(t.len() <= h.len());
        let t = string::trim_end(h); assert!(t.len() <= h.len());
        calls += 3;
        hi += 1;
    }
    calls
}
const fn string_iterators() -> u64 {
    let mut calls = 0u64;
    let mut si = 0;
    while si < STRS.len() {
        let s = STRS[si];
        // chars / char_indices: alternate front and back until exhausted, then once more
        let mut it = string::char_indices(s);
        let mut front = true;
        let mut total = 0;
        loop {
            let step = if front { it.copy().next() } else { it.copy().next_back() };
            calls += 1;
            match step {
                Some(((pos, c), next)) => { total += c.len_utf8(); assert!(pos <= s.len()); it = next; }
                None => break,
            }
            front = !front;
        }
        assert!(total == s.len() && it.as_str().is_empty());
        let mut it = string::chars(s).rev();
        let mut total = 0;
        while let Some((c, next)) = it.copy().next() { total += c.len_utf8(); it = next; calls += 1; }
        assert!(total == s.len());
        // split family with every string as delimiter (incl. the empty one)
        let mut di = 0;
        while di < STRS.len() {
            let d = STRS[di];
            if d.len() <= 4 {
                let mut it = string::split(s, d);
                let mut pieces = 0; let mut bytes = 0;
                while let Some((p, next)) = it.copy().next() { pieces += 1; bytes += p.len(); it = next; calls += 1; assert!(pieces <= 40); }
                if !d.is_empty() { assert!(bytes + (pieces - 1) * d.len() == s.len()); }
                let mut it = string::rsplit(s, d);
                let mut rp = 0;
                while let Some((_, next)) = it.copy().next() { rp += 1; it = next; calls += 1; assert!(rp <= 40); }
                assert!(rp == pieces);
                let mut it = string::split(s, d);
                let mut mixed = 0; let mut front = true;
                loop { let st = if front { it.copy().next() } else { it.copy().next_back() }; match st { Some((_, n)) => { it = n; mixed += 1; assert!(mixed <= 40); } None => break } front = !front; calls += 1; }
                let mut it = string::split_terminator(s, d);
                let mut tp = 0;
                while let Some((_, next)) = it.copy().next() { tp += 1; it = next; calls += 1; assert!(tp <= 40); }
                let mut it = string::rsplit_terminator(s, d);
                let mut tp = 0;
                while let Some((_, next)) = it.copy().next() { tp += 1; it = next; calls += 1; assert!(tp <= 40); }
            }
            di += 1;
        }
        si += 1;
    }
    calls
}
const fn slice_iterators() -> u64 {
    let full: [u16; 7] = [1, 2, 3, 4, 5, 6, 7];
    let mut calls = 0u64;
    let mut len = 0;
    while len <= 7 {
        let s = slice::slice_up_to(&full, len);
        let mut size = 1;
        while size <= len + 2 {
            macro_rules! drive { ($ctor:expr, $n:ident, $e:ident, $cond:expr) => {{
                let mut it = $ctor; let mut front = true; let mut $n = 0usize; let mut $e = 0usize;
                loop { let st = if front { it.copy().next() } else { it.copy().next_back() }; calls += 1;
                    match st { Some((x, nx)) => { $e += x.len(); it = nx; $n += 1; assert!($n <= 20); } None => break } front = !front; }
                assert!($cond);
            }}; }
            drive!(slice::windows(s, size), n, e, n == if size <= len { len - size + 1 } else { 0 });
            drive!(slice::chunks(s, size), n, e, e == len);
            drive!(slice::rchunks(s, size), n, e, e == len);
            drive!(slice::chunks_exact(s, size), n, e, n == len / size && e == n * size);
            drive!(slice::rchunks_exact(s, size), n, e, n == len / size && e == n * size);
            drive!(slice::chunks(s, size).rev(), n, e, e == len);
            assert!(slice::chunks_exact(s, size).remainder().len() == len % size);
            assert!(slice::rchunks_exact(s, size).remainder().len() == len % size);
            size += 1;
        }
        let mut it = slice::iter(s); let mut front = true; let mut n = 0;
        loop { let st = if front { it.copy().next() } else { it.copy().next_back() }; calls += 1; match st { Some((_, nx)) => { it = nx; n += 1; } None => break } front = !front; }
        assert!(n == len && it.as_slice().is_empty());
        let mut it = slice::iter_copied(s).rev(); let mut n = 0;
        while let Some((_, nx)) = it.copy().next() { it = nx; n += 1; calls += 1; }
        assert!(n == len);
        let mut it = slice::array_chunks::<u16, 3>(s); let mut n = 0;
        while let Some((a, nx)) = it.copy().next_back() { assert!(a[2] > a[0]); it = nx; n += 1; calls += 1; }
        assert!(n == len / 3 && slice::array_chunks::<u16, 3>(s).remainder().len() == len % 3);
        len += 1;
    }
    calls
}
const fn parser_and_parse() -> u64 {
    let mut calls = 0u64;
    let mut si = 0;
    while si < STRS.len() {
        let s = STRS[si];
        let p = Parser::with_start_offset(s, 3);
        let q = p.trim().trim_start().trim_end().trim_matches("a").trim_start_matches('ñ').trim_end_matches("a");
        assert!(q.start_offset() >= 3 && q.end_offset() <= 3 + s.len() && q.end_offset() - q.start_offset() == q.remainder().len());
        let q = p.skip(1).skip_back(1);
        assert!(q.end_offset() - q.start_offset() == q.remainder().len());
        match p.strip_prefix("a") { Ok(q) => assert!(q.start_offset() == 4), Err(e) => assert!(e.offset() == 3) }
        match p.strip_suffix('a') { Ok(q) => assert!(q.end_offset() == 2 + s.len()), Err(e) => assert!(e.offset() == 3 + s.len()) }
        match p.find_skip("ñ") { Ok(q) => assert!(q.start_offset() >= 5), Err(e) => assert!(e.offset() == 3) }
        match p.rfind_skip("ñ") { Ok(q) => assert!(q.end_offset() <= 1 + s.len()), Err(e) => assert!(e.offset() == 3 + s.len()) }
        let mut q = p; let mut n = 0;
        while let Ok((_, nq)) = q.split("a") { q = nq; n += 1; assert!(n <= 40); }
        let mut q = p; let mut n = 0;
        while let Ok((_, nq)) = q.rsplit('a') { q = nq; n += 1; assert!(n <= 40); }
        let mut q = p; while let Ok((_, nq)) = q.split_terminator("ñ") { q = nq; }
        let mut q = p; while let Ok((_, nq)) = q.rsplit_terminator("ñ") { q = nq; }
        let _ = p.split_keep("a");
        let _ = p.parse_u8(); let _ = p.parse_i128(); let _ = p.parse_bool(); let _ = p.parse_usize();
        calls += 20;
        si += 1;
    }
    assert!(matches!(konst::primitive::parse_u8("255"), Ok(255)) && konst::primitive::parse_u8("256").is_err() && konst::primitive::parse_u8("+1").is_err());
    assert!(matches!(konst::primitive::parse_i8("-128"), Ok(-128)) && konst::primitive::parse_i8("-129").is_err());
    assert!(matches!(konst::primitive::parse_u128("340282366920938463463374607431768211455"), Ok(u128::MAX)) && konst::primitive::parse_u128("340282366920938463463374607431768211456").is_err());
    assert!(matches!(konst::primitive::parse_i128("-170141183460469231731687303715884105728"), Ok(i128::MIN)));
    assert!(matches!(konst::primitive::parse_bool("true"), Ok(true)) && konst::primitive::parse_bool("tru").is_err());
    calls + 9
}
// ---------------------------------------------------------------- chars, cstr, maybe_uninit, arrays, builder/consumer, destructure
const fn chars_and_cstr() -> u64 {
    let mut calls = 0u64;
    let mut n = 0u32;
    while n < 0x11_0100 {
        let c = konst::chr::from_u32(n);
        let valid = n < 0xD800 || (n >= 0xE000 && n < 0x11_0000);
        assert!(c.is_some() == valid);
        if let Some(c) = c {
            let e = konst::chr::encode_utf8(c);
            assert!(e.as_str().len() == c.len_utf8() && e.as_bytes().len() == c.len_utf8());
            if let Some((d, _)) = string::chars(e.as_str()).next() { assert!(d as u32 == n); } else { panic!() }
            calls += 2;
        }
        calls += 1;
        n += if n < 0x900 || (n >= 0xD7F0 && n < 0xE010) || n >= 0x10_FFF0 || (n >= 0xFFF0 && n < 0x1_0010) { 1 } else { 0x3F1 };
    }
    use konst::ffi::cstr;
    match cstr::from_bytes_until_nul(b"ab\0cd\0") { Ok(c) => { assert!(cstr::to_bytes(c).len() == 2 && cstr::to_bytes_with_nul(c).len() == 3); match cstr::to_str(c) { Ok(s) => assert!(s.len() == 2), Err(_) => panic!() } } Err(_) => panic!() }
    assert!(cstr::from_bytes_until_nul(b"abc").is_err() && cstr::from_bytes_until_nul(b"").is_err());
    assert!(cstr::from_bytes_with_nul(b"ab\0").is_ok() && cstr::from_bytes_with_nul(b"a\0b\0").is_err() && cstr::from_bytes_with_nul(b"ab").is_err() && cstr::from_bytes_with_nul(b"a\0\0").is_err());
    match cstr::from_bytes_with_nul(b"\xFF\0") { Ok(c) => assert!(cstr::to_str(c).is_err() && cstr::to_bytes(c)[0] == 0xFF), Err(_) => panic!() }
    match string::from_utf8(b"a\xC3\xB1") { Ok(s) => assert!(s.len() == 3), Err(_) => panic!() }
    assert!(string::from_utf8(b"\xC3").is_err() && string::from_utf8(b"\xED\xA0\x80").is_err());
    calls + 12
}
struct Pair { a: String, b: Option<String> }
struct Tup(String, u8, String);
#[repr(C, packed)] struct Pk { x: u8, s: String, y: u32 }
const fn by_value() -> u64 {
    let mapped: [u16; 4] = konst::array::map!([1u8, 2, 3, 4], |x| x as u16 * 3);
    assert!(mapped[3] == 12);
    let gen: [usize; 5] = konst::array::from_fn!(|i| i * i);
    assert!(gen[4] == 16);
    let e: [u8; 0] = konst::array::from_fn!(|_| 1); assert!(e.len() == 0);
    let opts: [Option<String>; 3] = konst::array::from_fn_!(|i| if i == 1 { Some(String::new()) } else { None });
    let lens: [bool; 3] = konst::array::map_!(opts, |o| { let r = o.is_some(); core::mem::forget(o); r });
    assert!(!lens[0] && lens[1] && !lens[2]);
    let mut b: ArrayBuilder<u32, 3> = ArrayBuilder::new();
    b.push(1); assert!(b.len() == 1 && !b.is_full() && b.as_slice().len() == 1);
    b.push(2); b.as_mut_slice()[0] = 10; b.push(3);
    assert!(b.is_full());
    let b2 = b.copy();
    let arr = b.build();
    assert!(arr[0] == 10 && arr[2] == 3 && b2.build()[1] == 2);
    let mut c = ArrayConsumer::new(arr);
    let mut taken = 0;
    if let Some(x) = c.next_back() { assert!(ManuallyDrop::into_inner(x) == 3); taken += 1; }
    assert!(c.as_slice().len() == 2);
    c.as_mut_slice()[0] = 11;
    let c2 = c.copy();
    while let Some(x) = c.next() { let _ = ManuallyDrop::into_inner(x); taken += 1; }
    assert!(taken == 3 && c.next().is_none() && c.next_back().is_none() && c2.as_slice()[0] == 11);
    c.assert_is_empty();
    core::mem::forget(c2);
    // non-Copy, droppable elements through the consumer (forgotten, never dropped: no drop glue in const fn)
    let mut cs = ArrayConsumer::new([String::new(), String::new()]);
    while let Some(x) = cs.next_back() { core::mem::forget(ManuallyDrop::into_inner(x)); }
    cs.assert_is_empty();
    let e: ArrayConsumer<String, 0> = ArrayConsumer::empty(); e.assert_is_empty();
    let unfinished: ArrayBuilder<u8, 2> = ArrayBuilder::new(); core::mem::forget(unfinished);
    // destructure! in const fn
    let p = Pair { a: String::new(), b: None };
    konst::destructure!{Pair{a, b} = p}
    core::mem::forget((a, b));
    let t = Tup(String::new(), 7, String::new());
    konst::destructure!{Tup(x, n, z) = t}
    assert!(n == 7); core::mem::forget((x, z));
    let tup = (String::new(), 5u8, [String::new(), String::new(), String::new()]);
    konst::destructure!{(s, five, arr) = tup}
    konst::destructure!{[first, rest @ ..] = arr}
    assert!(five == 5 && rest.len() == 2); core::mem::forget((s, first, rest));
    let pk = Pk { x: 1, s: String::new(), y: 0xAABBCCDD };
    konst::destructure!{Pk{x, s, y} = pk}
    assert!(x == 1 && y == 0xAABBCCDD); core::mem::forget(s);
    let one = (String::new(),);
    konst::destructure!{(only,) = one}
    core::mem::forget(only);
    let mut mu: [core::mem::MaybeUninit<u32>; 3] = konst::maybe_uninit::uninit_array();
    let mut i = 0; while i < 3 { *konst::maybe_uninit::write(&mut mu[i], i as u32) += 1; i += 1; }
    let init: [u32; 3] = unsafe { konst::maybe_uninit::array_assume_init(mu) };
    assert!(init[2] == 3);
    let md = ManuallyDrop::new(5u8); assert!(*konst::manually_drop::as_inner(&md) == 5);
    static X: u8 = 3;
    assert!(!konst::ptr::is_null(&X as *const u8) && konst::ptr::is_null(core::ptr::null::<u8>()));
    assert!(konst::ptr::nonnull::new(core::ptr::null_mut::<u8>()).is_none());
    let nn = konst::ptr::nonnull::from_ref(&X); assert!(unsafe { *nn.as_ref() } == 3);
    40
}
// ---------------------------------------------------------------- const-only macro forms
const CC0: [u32; 4] = konst::iter::collect_const!(u32 => &[1u32, 2, 3, 4, 5, 6], copied(), filter(|x| *x % 2 == 1), flat_map(|x| 0..x), skip(1), take(4));
const CC1: [&u8; 0] = konst::iter::collect_const!(&u8 => &[] as &[u8], rev());
const CC2: [(usize, char); 4] = konst::iter::collect_const!((usize, char) => string::char_indices("a個ñ🙂"), rev());
const CC3: [&str; 2] = konst::iter::collect_const!(&str => string::split("a,b,,", ","), take_while(|s| !s.is_empty()), chain_check());
const R0: [u8; 3] = konst::iter::collect_const!(u8 => 253u8..=255);
const R1: [i8; 4] = konst::iter::collect_const!(i8 => -128i8..-124, rev());
const R2: [char; 4] = konst::iter::collect_const!(char => '\u{D7FE}'..='\u{E001}');
const R3: [u8; 0] = konst::iter::collect_const!(u8 => 5u8..2);
const R4: [usize; 3] = konst::iter::collect_const!(usize => (usize::MAX - 4).., take(3));
const R5: [u128; 2] = konst::iter::collect_const!(u128 => &(u128::MAX - 1..=u128::MAX));
const R6: [i64; 3] = konst::iter::collect_const!(i64 => i64::MIN..=i64::MIN + 2, rev());
const SC0: &str = string::str_concat!(&["a", "ñ", "", "個🙂"]);
const SC1: &str = string::str_concat!(&['a', '🙂', '\0']);
const SJ0: &str = string::str_join!("🙂", &["a", "", "ñ"]);
const SJ1: &str = string::str_join!('ñ', &["", ""]);
const SJ2: &str = string::str_join!(",", &[]);
const FI0: &str = string::from_iter!(&["x", "個"], flat_map(|s| string::chars(s)), rev());
const FI1: &str = string::from_iter!('\u{D7FE}'..='\u{E001}');
const SL0: [u16; 5] = slice::slice_concat!(u16, &[&[1, 2], &[], &[3, 4, 5]]);
const SL1: [&str; 0] = slice::slice_concat!(&str, &[]);
const SL2: [u8; 0] = slice::slice_concat!(u8, &[&[], &[]]);
const fn const_forms() -> u64 {
    assert!(CC0[0] == 0 && CC0[1] == 1 && CC0[2] == 2 && CC0[3] == 0 && CC3.len() == 2);
    assert!(CC2[0].0 == 6 && CC2[3].1 == 'a');
    assert!(SC0.len() == 10 && SC1.len() == 6 && SJ0.len() == 11 && SJ1.len() == 2 && SJ2.is_empty());
    assert!(R0[0] == 253 && R0[2] == 255 && R1[0] == -125 && R1[3] == -128 && R2[1] == '\u{D7FF}' && R2[2] == '\u{E000}' && R3.len() == 0);
    assert!(R4[0] == usize::MAX - 4 && R4[2] == usize::MAX - 2 && R5[1] == u128::MAX && R6[0] == i64::MIN + 2 && R6[2] == i64::MIN);
    assert!(FI0.len() == 4 && FI1.len() == 12 && SL0[4] == 5 && SL1.is_empty() && SL2.is_empty());
    21
}

const N_SLICING: u64 = slicing_u32();
const N_SLICING_MUT: u64 = slicing_mut();
const N_STR_SLICING: u64 = string_slicing();
const N_STR_SEARCH: u64 = string_search();
const N_STR_ITERS: u64 = string_iterators();
const N_SLICE_ITERS: u64 = slice_iterators();
const N_PARSER: u64 = parser_and_parse();
const N_CHARS: u64 = chars_and_cstr();
const N_BYVALUE: u64 = by_value();
const N_CONST_FORMS: u64 = const_forms();

fn main() {
    println!("CTFE\tslicing\t{}", N_SLICING);
    println!("CTFE\tslicing_mut\t{}", N_SLICING_MUT);
    println!("CTFE\tstring_slicing\t{}", N_STR_SLICING);
    println!("CTFE\tstring_search\t{}", N_STR_SEARCH);
    println!("CTFE\tstring_iterators\t{}", N_STR_ITERS);
    println!("CTFE\tslice_iterators\t{}", N_SLICE_ITERS);
    println!("CTFE\tparser_and_parse\t{}", N_PARSER);
    println!("CTFE\tchars_and_cstr\t{}", N_CHARS);
    println!("CTFE\tby_value\t{}", N_BYVALUE);
    println!("CTFE\tconst_forms\t{}", N_CONST_FORMS);
    for s in [SC0, SC1, SJ0, SJ1, FI0, FI1] { assert!(core::str::from_utf8(s.as_bytes()).is_ok()); }
}
'''

# (name, program, expected class) - class "panic" = const evaluation must stop with "evaluation panicked"
EXPECT_PANIC = [
    ("str_from inside a 2-byte char", 'const X: &str = konst::string::str_from("añb", 2);'),
    ("str_up_to inside a 3-byte char", 'const X: &str = konst::string::str_up_to("個", 1);'),
    ("str_up_to inside a 4-byte char", 'const X: &str = konst::string::str_up_to("a🙂", 4);'),
    ("str_range start inside a char", 'const X: &str = konst::string::str_range("ñ", 1, 2);'),
    ("str_range end inside a char, start past the end", 'const X: &str = konst::string::str_range("ñ", 3, 1);'),
    ("split_at inside a char", 'const X: (&str, &str) = konst::string::split_at("個", 2);'),
    ("as_chunks with N = 0", 'const X: (&[[u8; 0]], &[u8]) = konst::slice::as_chunks::<u8, 0>(&[1, 2]);'),
    ("windows size 0", 'const X: usize = { let w = konst::slice::windows(&[1u8, 2], 0); 0 };'),
    ("builder build when not full", 'const X: [u8; 2] = { let mut b = konst::array::ArrayBuilder::new(); b.push(1u8); b.build() };'),
    ("builder push when full", 'const X: [u8; 1] = { let mut b = konst::array::ArrayBuilder::new(); b.push(1u8); b.push(2u8); b.build() };'),
    ("consumer assert_is_empty when not empty", 'const X: () = { let c = konst::array::ArrayConsumer::new([1u8, 2]); c.assert_is_empty() };'),
    ("map! closure breaks", 'const X: [u8; 2] = konst::array::map!([1u8, 2], |x| { if x == 2 { break; } x });'),
    ("from_fn_! closure continues", 'const X: [u8; 2] = konst::array::from_fn_!(|i| { if i == 0 { continue; } 1u8 });'),
]
K3_PROGS = [
    ("ptr::is_null on an out-of-bounds pointer in const", 'static X: u8 = 0;\nconst C: bool = konst::ptr::is_null((&X as *const u8).wrapping_add(1000));', "K3:ptr::is_null:out-of-bounds-pointer:const-eval"),
    ("ptr::nonnull::new on an out-of-bounds pointer in const", 'static X: u8 = 0;\nconst C: bool = konst::ptr::nonnull::new((&X as *const u8 as *mut u8).wrapping_add(1000)).is_some();', "K3:ptr::nonnull::new:out-of-bounds-pointer:const-eval"),
]
K3_CONTROLS = [
    ("ptr::is_null on in-bounds / one-past-the-end pointers in const", 'static X: [u8; 2] = [0, 1];\nconst C: bool = konst::ptr::is_null((&X as *const [u8; 2] as *const u8).wrapping_add(2)) || konst::ptr::is_null(&X as *const [u8; 2] as *const u8);\nconst D: bool = konst::ptr::nonnull::new(core::ptr::null_mut::<u16>()).is_none();'),
]



# ---------------------------------------------------------------- hostile macro forms (run-time half of "every macro expansion")
HOSTILE_PRELUDE = r"""
#![allow(unused, clippy::all)]
include!("%(ledger)s");
fn t(i: u32) -> Tok { Tok::new(i) }
struct S { a: Tok, b: Tok }
struct P(Tok, Tok);
struct D { a: Tok, b: Tok }
impl Drop for D { fn drop(&mut self) { mark("D::drop"); } }
struct G(Tok, Tok);
impl Drop for G { fn drop(&mut self) { mark("G::drop"); } }
fn attempt() {
%(body)s
}
fn main() {
    let _ = take_log();
    let r = std::panic::catch_unwind(attempt);
    let a = audit(&take_log());
    println!("HOSTILE\t{}\tpanicked={} double_drops={:?} leaked={:?} unknown={:?} double_received={:?} corrupt={:?}", if a.double_drops.is_empty() && a.unknown_drops.is_empty() && a.corrupt.is_empty() { "clean" } else { "dirty" }, r.is_err(), a.double_drops, a.leaked, a.unknown_drops, a.double_received, a.corrupt);
}
"""


def hostile_forms():
    """(name, body): destructure! applied where the property says it must not be usable to duplicate
    ownership - through a reference, or on a type with a Drop impl. Every one is expected to be rejected
    by rustc; one that compiles is executed over ledger elements and audited."""
    forms = []
    for refk, mk in (("&mut ", "&mut v"), ("&", "&v")):
        for ann in (True, False):
            a = lambda ty: (": %s%s" % (refk, ty)) if ann else ""
            nm = refk.strip() + (" annotated" if ann else "")
            forms.append(("tuple through %s" % nm, "    let mut v = (t(0), t(1));\n    { let r = %s; konst::destructure!{(a, b)%s = r} drop((a, b)); }\n    drop(v);" % (mk, a("(Tok, Tok)"))))
            forms.append(("1-tuple through %s" % nm, "    let mut v = (t(0),);\n    { let r = %s; konst::destructure!{(a,)%s = r} drop(a); }\n    drop(v);" % (mk, a("(Tok,)"))))
            forms.append(("array through %s" % nm, "    let mut v = [t(0), t(1)];\n    { let r = %s; konst::destructure!{[a, b]%s = r} drop((a, b)); }\n    drop(v);" % (mk, a("[Tok; 2]"))))
            forms.append(("array with rest through %s" % nm, "    let mut v = [t(0), t(1), t(2)];\n    { let r = %s; konst::destructure!{[a, rest @ ..]%s = r} drop(a); drop(rest); }\n    drop(v);" % (mk, a("[Tok; 3]"))))
            forms.append(("braced struct through %s" % nm, "    let mut v = S { a: t(0), b: t(1) };\n    { let r = %s; konst::destructure!{S{a, b}%s = r} drop((a, b)); }\n    drop(v);" % (mk, a("S"))))
            forms.append(("tuple struct through %s" % nm, "    let mut v = P(t(0), t(1));\n    { let r = %s; konst::destructure!{P(a, b)%s = r} drop((a, b)); }\n    drop(v);" % (mk, a("P"))))
    for ann in (True, False):
        forms.append(("braced Drop struct%s" % (" annotated" if ann else ""), "    let v = D { a: t(0), b: t(1) };\n    konst::destructure!{D{a, b}%s = v}\n    drop((a, b));" % (": D" if ann else "")))
        forms.append(("tuple Drop struct%s" % (" annotated" if ann else ""), "    let v = G(t(0), t(1));\n    konst::destructure!{G(a, b)%s = v}\n    drop((a, b));" % (": G" if ann else "")))
    forms.append(("Drop tuple struct through the tuple arm", "    let v = G(t(0), t(1));\n    konst::destructure!{(a, b) = v}\n    drop((a, b));"))
    forms.append(("Box<tuple> through the tuple arm", "    let v = Box::new((t(0), t(1)));\n    konst::destructure!{(a, b) = v}\n    drop((a, b));"))
    forms.append(("ManuallyDrop<tuple> through the tuple arm", "    let v = core::mem::ManuallyDrop::new((t(0), t(1)));\n    konst::destructure!{(a, b) = v}\n    drop((a, b));"))
    # a union: the macro would read whichever field is named, initialised or not (here: a bool over a 7)
    forms.append(("generic union through the type form", "    union U<T: Copy> { a: T, b: bool }\n    let u = U::<u8> { a: 7 };\n    konst::destructure!{U<u8> {b} = u}\n    let n = unsafe { core::mem::transmute::<bool, u8>(b) };\n    if n > 1 { log(Ev::Corrupt(n as u32)); }"))
    forms.append(("union through the path form", "    union V { a: u8, b: bool }\n    let u = V { a: 7 };\n    konst::destructure!{V {b} = u}\n    let n = unsafe { core::mem::transmute::<bool, u8>(b) };\n    if n > 1 { log(Ev::Corrupt(n as u32)); }"))
    # controls: the same skeleton by value must compile and conserve every element
    forms.append(("control: tuple by value", "    let v = (t(0), t(1));\n    konst::destructure!{(a, b): (Tok, Tok) = v}\n    drop((a, b));"))
    forms.append(("control: array by value", "    let v = [t(0), t(1), t(2)];\n    konst::destructure!{[a, rest @ ..]: [Tok; 3] = v}\n    drop(a); drop(rest);"))
    forms.append(("control: struct by value", "    let v = S { a: t(0), b: t(1) };\n    konst::destructure!{S{a, b} = v}\n    drop((a, b));"))
    forms.append(("control: tuple struct by value", "    let v = P(t(0), t(1));\n    konst::destructure!{P(a, b): P = v}\n    drop((a, b));"))
    forms.append(("Rc<tuple> through the tuple arm", "    let v = std::rc::Rc::new((t(0), t(1)));\n    let w = v.clone();\n    konst::destructure!{(a, b) = v}\n    drop((a, b)); drop(w);"))
    return forms


def run_hostile(cx, out, hist):
    ledger = os.path.join(kv.HARNESS, "src", "ledger.rs")
    forms = hostile_forms()
    srcs = [cx.write("hostile_%02d.rs" % i, HOSTILE_PRELUDE % {"ledger": ledger, "body": body}) for i, (_, body) in enumerate(forms)]
    comp = cx.compile_many(srcs)
    executed = 0
    for (name, body), src, (rc, se, outp) in zip(forms, srcs, comp):
        if rc is None:
            raise kv.Inconclusive("watchdog: rustc did not finish on %s" % src)
        if rc != 0:
            if name.startswith("control:"):
                raise kv.Inconclusive("hostile-form control `%s` does not compile: %s" % (name, first_error(se)[:300]))
            hist["hostile-form/rejected-at-compile-time"] = hist.get("hostile-form/rejected-at-compile-time", 0) + 1
            continue
        rc2, so, se2 = cx.run(outp, timeout=600)
        executed += 0 if name.startswith("control:") else 1
        m = re.search(r"HOSTILE\t(\S+)\t(.*)", so or "")
        if rc2 is None:
            raise kv.Inconclusive("watchdog: %s did not finish" % outp)
        if rc2 is not None and rc2 < 0:
            out.fail("C01:misused-macro-compiles-and-crashes:signal-%d" % -rc2, "destructure!", "%s | %s" % (name, body.replace("\n", " ")), "compiles; the program is killed by signal %d" % -rc2, "rejected at compile time, or executes with every element dropped exactly once", "generated-program", cmd=outp, source=src)
            continue
        if not m:
            raise kv.Inconclusive("hostile-form program %s produced no verdict (rc=%s): %s" % (outp, rc2, (se2 or "")[-200:]))
        hist[("hostile-form/control:" if name.startswith("control:") else "hostile-form/compiles:") + m.group(1)] = hist.get(("hostile-form/control:" if name.startswith("control:") else "hostile-form/compiles:") + m.group(1), 0) + 1
        if m.group(1) != "clean":
            out.fail("C01:misused-macro-compiles-and-duplicates-ownership:" + re.sub(r"[^A-Za-z0-9&<> -]", "", name)[:60], "destructure!", "%s | %s" % (name, body.replace("\n", " ")), "compiles; ledger audit: " + m.group(2)[:300],
                     "rejected at compile time, or executes with every element dropped exactly once", "generated-program", cmd=outp, source=src)
    out.engines["generated-programs"] = out.engines.get("generated-programs", 0) + len(forms)
    out.evals += len(forms)
    out.counters["hostile_forms_attempted"] = len(forms)
    out.counters["hostile_forms_compiled_and_executed"] = executed
    out.rules.append("hostile macro forms: one evaluation = one destructure! program that tries to move out of a reference / a Drop type / a smart pointer over ledger elements; rejected by rustc = nothing to execute; a program that compiles is run and its move/drop ledger audited (double drop, drop of an unknown element or corrupted payload = violation)")
    out.exhaustive.append("hostile forms: {&mut, &} x {annotated, plain} x {tuple, 1-tuple, array, array with rest, braced struct, tuple struct}; Drop structs (braced/tuple, annotated/plain, through the tuple arm); Box / ManuallyDrop / Rc of a tuple through the tuple arm; unions in the path and type forms")


def strings():
    sigma = ["a", "ñ", "個", "🙂"]
    out = [""]
    prev = [""]
    for _ in range(2):
        cur = [p + a for p in prev for a in sigma]
        out += cur
        prev = cur
    out += ["aaa", "aab", "ñañ", " a ", "\\t ñ\\n", "a,b,,", ",", "-12", "255;", "true", "個🙂個", "\\u{c}x\\u{c}", "a\\u{a0}", "aaab"]
    return out


def classify_error(se):
    """'ub' / 'panic' / 'other'"""
    msgs = re.findall(r"error\[E0080\]: (.*)", se)
    if any("panicked" not in m for m in msgs):
        return "ub"
    if msgs or "evaluation panicked" in se or "the evaluated program panicked" in se:
        return "panic"
    return "other"


def run(out, tier, seed):
    thorough = tier == "thorough"
    cx = Ctx("c01")
    strs = ", ".join('"%s"' % s for s in strings())
    main_src = cx.write("ctfe_main.rs", MAIN.replace("@@STRS@@", strs).replace(", chain_check()", ""))
    head = "#![allow(unused, deprecated, long_running_const_eval)]\n"
    tiny = []
    for name, prog in EXPECT_PANIC:
        tiny.append(("panic", name, cx.write("ctfe_panic_%02d.rs" % len(tiny), head + prog + "\nfn main() {}\n"), None))
    for name, prog, key in K3_PROGS:
        tiny.append(("k3", name, cx.write("ctfe_k3_%02d.rs" % len(tiny), head + prog + "\nfn main() {}\n"), key))
    for name, prog in K3_CONTROLS:
        tiny.append(("ok", name, cx.write("ctfe_ok_%02d.rs" % len(tiny), head + prog + "\nfn main() {}\n"), None))
    jobs = [(main_src, False)] + [(t[2], False) for t in tiny]
    if thorough:
        jobs.append((main_src, True))
    import concurrent.futures
    def comp(job):
        src, extra = job
        if extra:
            nk, nd = kv.konst_rlibs("dbg", nightly=True)
            rc, so, se = kv.rustc_compile(src, src[:-3] + ".extra.bin", nk, nd, nightly=True, extra=["-Zextra-const-ub-checks"], timeout=3600)
            return rc, se, src[:-3] + ".extra.bin"
        return cx.compile(src, timeout=3600)
    with concurrent.futures.ThreadPoolExecutor(max_workers=kv.NCPU) as ex:
        res = list(ex.map(comp, jobs))
    evals = 0
    hist = {}
    samples = []
    # main CTFE crate
    for (rc, se, outp), (src, extra) in zip([res[0]] + (res[-1:] if thorough else []), [jobs[0]] + (jobs[-1:] if thorough else [])):
        eng = "rustc-const-eval" + ("+extra-const-ub-checks" if extra else "")
        if rc is None:
            raise kv.Inconclusive("watchdog: const evaluation of %s did not finish" % src)
        if rc != 0:
            cls = classify_error(se or "")
            consts = re.findall(r"evaluation of `?([A-Za-z_0-9:]+)`? failed|const (N_[A-Z_]+)", se or "")
            where = re.search(r"-->\s*(\S+:\d+:\d+)", se or "")
            if cls == "other" and "E0080" not in (se or ""):
                # does not compile for a reason other than const evaluation: API drift in the tree under test
                raise kv.Inconclusive("the CTFE crate does not compile against the current tree: %s" % first_error(se)[:300])
            msg = first_error(se, 4)
            if cls == "panic":
                # a checked failure (a panic inside konst, or one of the crate's own value assertions) is not
                # undefined behaviour: it belongs to the functional property of that function. It does stop the
                # const evaluator from seeing the rest of the crate, so this engine decided nothing.
                out.inconclusive.append("%s: the CTFE crate stopped at a const-evaluation panic (a functional failure, not UB: %s), the const-evaluation sanitizer did not see the rest" % (eng, msg[:200]))
                out.notes.append("CTFE crate: const evaluation panicked at %s: %s" % (where.group(1) if where else "?", msg[:300]))
                continue
            sig = "C01:const-eval-UB"
            out.fail(sig + ":" + re.sub(r"[^A-Za-z0-9 _:-]", "", msg)[:90], "const evaluation", "%s at %s" % (src, where.group(1) if where else "?"), msg[:500], "every const item evaluates without undefined behaviour and every in-const assertion holds", eng, cmd="rustc %s%s" % ("+nightly -Zextra-const-ub-checks " if extra else "", src), detail=(se or "")[-1500:], source=src)
            continue
        rc2, so, se2 = cx.run(outp)
        if rc2 != 0:
            raise kv.Inconclusive("CTFE binary exited with %s: %s" % (rc2, (se2 or "")[-200:]))
        n = 0
        for line in so.splitlines():
            f = line.split("\t")
            if f[0] == "CTFE":
                hist["ctfe/" + f[1]] = hist.get("ctfe/" + f[1], 0) + int(f[2])
                n += int(f[2])
        evals += n
        out.engines[eng] = out.engines.get(eng, 0) + n
    run_hostile(cx, out, hist)
    # tiny programs
    rejected_for_the_right_reason = 0
    for (kind, name, src, key), (rc, se, outp) in zip(tiny, res[1:1 + len(tiny)]):
        if rc is None:
            raise kv.Inconclusive("watchdog: rustc did not finish on %s" % src)
        cls = "compiles" if rc == 0 else classify_error(se or "")
        hist["ctfe-tiny/%s:%s" % (kind, cls)] = hist.get("ctfe-tiny/%s:%s" % (kind, cls), 0) + 1
        evals += 1
        if kind == "panic":
            if cls == "panic":
                rejected_for_the_right_reason += 1
            elif cls == "ub":
                out.fail("C01:const-eval-UB-instead-of-panic", "const evaluation", "%s (%s)" % (name, src), first_error(se, 4)[:400], "evaluation panicked (a checked failure), not undefined behaviour", "rustc-const-eval", cmd="rustc " + src, source=src)
            elif cls == "compiles":
                out.fail("C01:const-eval-no-panic", "const evaluation", "%s (%s)" % (name, src), "the program compiles", "evaluation panicked", "rustc-const-eval", cmd="rustc " + src, source=src)
            else:
                out.notes.append("expected-panic program did not reach const evaluation: %s: %s" % (name, first_error(se)[:160]))
        elif kind == "k3":
            if cls == "ub":
                out.failures.append({"sig": key, "api": "konst::ptr", "input": name, "got": first_error(se, 2)[:300], "want": "evaluates (run time behaviour: false / Some)", "engine": "rustc-const-eval", "variant": "", "sub": "", "cmd": "rustc " + src, "count_for_sig": 1})
            elif cls != "compiles":
                out.notes.append("K3 program neither compiled nor hit the known error: %s: %s" % (name, first_error(se)[:160]))
        else:
            if cls != "compiles":
                out.fail("C01:const-eval-UB:pointer-control", "const evaluation", "%s (%s)" % (name, src), first_error(se, 3)[:400], "evaluates", "rustc-const-eval", cmd="rustc " + src, source=src)
    out.engines["rustc-const-eval"] = out.engines.get("rustc-const-eval", 0) + len(tiny)
    samples = ["const N: u64 = slicing_u32();  // loops over lengths 0..=6 x all index pairs incl. isize::MAX+1, usize::MAX inside the const evaluator",
               "const X: &str = konst::string::str_from(\"añb\", 2);  // expected outcome: E0080 evaluation panicked",
               "const CC: [u32; 4] = collect_const!(u32 => &[1,2,3,4,5,6], copied(), filter(..), flat_map(|x| 0..x), skip(1), take(4));"]
    out.evals += evals
    out.nontrivial["ctfe"] = max(out.nontrivial.get("ctfe", 0), 10 + rejected_for_the_right_reason)
    out.samples.extend(samples[: max(0, 12 - len(out.samples))])
    for k, v in hist.items():
        out.hist[k] = out.hist.get(k, 0) + v
    out.rules.append("CTFE: one evaluation = one call of a konst function / macro form made inside a `const` item (counted by the const fn itself and printed by the compiled binary), or one tiny expected-panic / pointer program; oracle = rustc's exit status and diagnostic class (E0080 UB message vs `evaluation panicked`)")
    out.exhaustive.append("CTFE crate: shared and mut slicing over lengths 0..=6/5 x all index pairs from 0..=len+2 and six values around isize::MAX / usize::MAX; %d strings (all <= 2 chars over {a,ñ,個,🙂} + 14 special) x all index pairs, x every string as needle/delimiter; all split/chars/slice iterators to exhaustion with alternating ends; Parser ops and integer parsing; from_u32/encode_utf8/decode over a dense-at-the-boundaries sample of 0..0x110100; CStr; map!/from_fn!/map_!/from_fn_!/ArrayBuilder/ArrayConsumer/destructure!/maybe_uninit/ptr in const fn; collect_const!/str_concat!/str_join!/from_iter!/slice_concat!; %d expected-panic programs; K3 pointer programs%s" % (len(strings()), len(EXPECT_PANIC), "; whole crate again under nightly -Zextra-const-ub-checks" if thorough else ""))
