"""C17 – misused macros are rejected at compile time instead of compiling to unsound code.

Compile-verdict monitor (DESIGN.md §2/E5, §6/C17): a generated family of invalid programs per
guard x syntactic shape, each paired with a minimally different valid control. Oracle = rustc's
exit status (`--emit=metadata`); diagnostics are recorded, never asserted.
  invalid program compiles            -> VIOLATION (or KNOWN-FINDING K2 for field-less Drop structs)
  control does not compile            -> the pair is inconclusive (counted, reported in the evidence;
                                         if most controls fail the whole check is INCONCLUSIVE)
"""
import random
import re

from gcommon import Ctx, first_error
import kv

HEAD = "#![allow(unused, clippy::all)]\n"


class Case:
    def __init__(self, guard, name, bad, good, known=None):
        self.guard, self.name, self.bad, self.good, self.known = guard, name, HEAD + bad, HEAD + good, known


def fields(n):
    return ["f%d" % i for i in range(n)]


def gen_destructure():
    cases = []
    # ---------------- G1: the type implements Drop
    for n in (1, 2, 3):
        fs = fields(n)
        for ctx in ("fn", "const fn"):
            for generic in (False, True):
                g = "<T>" if generic else ""
                # bound values are dropped at the end of the fn: in a const fn they must have no drop glue
                ty = "T" if generic else ("core::mem::ManuallyDrop<String>" if ctx == "const fn" else "String")
                gb = ("<T: Copy>" if ctx == "const fn" else "<T>") if generic else ""
                # braced
                decl = "struct S%s { %s }\n" % (g, ", ".join("%s: %s" % (f, ty) for f in fs))
                drop = "impl%s Drop for S%s { fn drop(&mut self) {} }\n" % (g, g)
                for form, pat in (("path", "S{%s}" % ", ".join(fs)), ("annotated", "S{%s}: S%s" % (", ".join(fs), g)), ("turbofish", "S::%s{%s}" % ("<T>" if generic else "<>", ", ".join(fs))), ("renamed", "S{%s}" % ", ".join("%s: x%d" % (f, i) for i, f in enumerate(fs)))):
                    if form == "turbofish" and not generic:
                        continue
                    body = "%s f%s(v: S%s) { konst::destructure!{%s = v} }\n" % (ctx, gb, g, pat)
                    cases.append(Case("G1-drop", "braced struct n=%d %s %s %s" % (n, ctx, "generic" if generic else "concrete", form), decl + drop + body, decl + body))
                # tuple struct
                decl = "struct S%s(%s);\n" % (g, ", ".join([ty] * n))
                xs = ["x%d" % i for i in range(n)]
                for form, pat in (("path", "S(%s)" % ", ".join(xs)), ("annotated", "S(%s): S%s" % (", ".join(xs), g))):
                    body = "%s f%s(v: S%s) { konst::destructure!{%s = v} }\n" % (ctx, gb, g, pat)
                    cases.append(Case("G1-drop", "tuple struct n=%d %s %s %s" % (n, ctx, "generic" if generic else "concrete", form), decl + drop + body, decl + body))
    # a Drop type smuggled through the tuple / array arms
    for n in (1, 2, 3):
        xs = ["x%d" % i for i in range(n)]
        pat = "(%s%s)" % (", ".join(xs), "," if n == 1 else "")
        decl = "struct G(%s);\nimpl Drop for G { fn drop(&mut self) {} }\n" % ", ".join(["String"] * n)
        cases.append(Case("G1-drop", "Drop tuple-struct through the tuple arm n=%d" % n, decl + "fn f(v: G) { konst::destructure!{%s = v} }\n" % pat, "fn f(v: (%s)) { konst::destructure!{%s = v} }\n" % (", ".join(["String"] * n) + ("," if n == 1 else ""), pat)))
        declc = "struct G(%s);\nimpl Drop for G { fn drop(&mut self) {} }\n" % ", ".join(["u8"] * n)
        cases.append(Case("G1-drop", "Drop tuple-struct through the tuple arm n=%d const fn" % n, declc + "const fn f(v: G) { konst::destructure!{%s = v} }\n" % pat, "const fn f(v: (%s)) { konst::destructure!{%s = v} }\n" % (", ".join(["u8"] * n) + ("," if n == 1 else ""), pat)))
    # K2: field-less Drop struct (known finding in a non-const fn)
    for shape, decl, pat in (("braced", "struct E {}\n", "E{}"), ("tuple", "struct E();\n", "E()")):
        drop = "impl Drop for E { fn drop(&mut self) {} }\n"
        cases.append(Case("G1-drop", "field-less Drop struct (%s) fn" % shape, decl + drop + "fn f(v: E) { konst::destructure!{%s = v} }\n" % pat, decl + "fn f(v: E) { konst::destructure!{%s = v} }\n" % pat, known="K2:fieldless-drop-struct-compiles:" + shape))
    # ---------------- unions are not structs: reading a field is only sound for the initialised one
    for form, pat in (("path form", "U {b}"), ("type form", "U<u8> {b}"), ("type form annotated", "U<u8> {b}: U<u8>"), ("turbofish", "U::<u8> {b}")):
        decl_u = "union U<T: Copy> { a: T, b: bool }\n"
        decl_s = "struct U<T: Copy> { b: bool, a: core::marker::PhantomData<T> }\n"
        bad = decl_u + "fn f(u: U<u8>) -> bool { konst::destructure!{%s = u} b }\n" % pat
        good = decl_s + "fn f(u: U<u8>) -> bool { konst::destructure!{%s = u} b }\n" % pat.replace("{b}", "{b, a: _}")
        cases.append(Case("G1-drop", "union %s" % form, bad, good))
    # ---------------- G2: a reference
    for refk in ("&", "&mut "):
        for n in (1, 2, 3):
            fs = fields(n)
            decl = "struct S { %s }\n" % ", ".join("%s: String" % f for f in fs)
            for ann in (False, True):
                pat = "S{%s}%s" % (", ".join(fs), (": %sS" % refk) if ann else "")
                cases.append(Case("G2-reference", "%sbraced struct n=%d%s" % (refk, n, " annotated" if ann else ""), decl + "fn f(v: %sS) { konst::destructure!{%s = v} }\n" % (refk, pat), decl + "fn f(v: S) { konst::destructure!{S{%s} = v} }\n" % ", ".join(fs)))
            decl = "struct S(%s);\n" % ", ".join(["String"] * n)
            xs = ["x%d" % i for i in range(n)]
            for ann in (False, True):
                pat = "S(%s)%s" % (", ".join(xs), (": %sS" % refk) if ann else "")
                cases.append(Case("G2-reference", "%stuple struct n=%d%s" % (refk, n, " annotated" if ann else ""), decl + "fn f(v: %sS) { konst::destructure!{%s = v} }\n" % (refk, pat), decl + "fn f(v: S) { konst::destructure!{S(%s) = v} }\n" % ", ".join(xs)))
        for n in (1, 2, 3, 4):
            xs = ["x%d" % i for i in range(n)]
            tty = "(%s%s)" % (", ".join(["String"] * n), "," if n == 1 else "")
            tp = "(%s%s)" % (", ".join(xs), "," if n == 1 else "")
            for ann in (False, True):
                cases.append(Case("G2-reference", "%stuple n=%d%s" % (refk, n, " annotated" if ann else ""), "fn f(v: %s%s) { konst::destructure!{%s%s = v} }\n" % (refk, tty, tp, (": %s%s" % (refk, tty)) if ann else ""), "fn f(v: %s) { konst::destructure!{%s = v} }\n" % (tty, tp)))
            ctty = tty.replace("String", "u8")
            for ctx in ("const fn",):
                cases.append(Case("G2-reference", "%stuple n=%d const fn" % (refk, n), "%s f(v: %s%s) { konst::destructure!{%s = v} }\n" % (ctx, refk, ctty, tp), "%s f(v: %s) { konst::destructure!{%s = v} }\n" % (ctx, ctty, tp)))
        for n in (1, 2, 3):
            xs = ["x%d" % i for i in range(n)]
            for pat, nm in (("[%s]" % ", ".join(xs), "full"), ("[%s, ..]" % xs[0], "rest"), ("[%s, r @ ..]" % xs[0], "named-rest"), ("[.., %s]" % xs[0], "rest-first")):
                for ann in (False, True):
                    cases.append(Case("G2-reference", "%sarray n=%d %s%s" % (refk, n, nm, " annotated" if ann else ""), "fn f(v: %s[String; %d]) { konst::destructure!{%s%s = v} }\n" % (refk, n, pat, (": %s[String; %d]" % (refk, n)) if ann else ""), "fn f(v: [String; %d]) { konst::destructure!{%s = v} }\n" % (n, pat)))
    # ---------------- G3: field / element count differs from the type's
    for n in (2, 3):
        fs = fields(n)
        decl = "struct S { %s }\n" % ", ".join("%s: String" % f for f in fs)
        good = decl + "fn f(v: S) { konst::destructure!{S{%s} = v} }\n" % ", ".join(fs)
        cases.append(Case("G3-count", "braced struct n=%d one field omitted" % n, decl + "fn f(v: S) { konst::destructure!{S{%s} = v} }\n" % ", ".join(fs[:-1]), good))
        cases.append(Case("G3-count", "braced struct n=%d first field omitted" % n, decl + "fn f(v: S) { konst::destructure!{S{%s} = v} }\n" % ", ".join(fs[1:]), good))
        cases.append(Case("G3-count", "braced struct n=%d extra field" % n, decl + "fn f(v: S) { konst::destructure!{S{%s, zz} = v} }\n" % ", ".join(fs), good))
        cases.append(Case("G3-count", "braced struct n=%d field twice" % n, decl + "fn f(v: S) { konst::destructure!{S{%s, %s: again} = v} }\n" % (", ".join(fs), fs[0]), good))
        decl = "struct S(%s);\n" % ", ".join(["String"] * n)
        xs = ["x%d" % i for i in range(n)]
        good = decl + "fn f(v: S) { konst::destructure!{S(%s) = v} }\n" % ", ".join(xs)
        cases.append(Case("G3-count", "tuple struct n=%d one too few" % n, decl + "fn f(v: S) { konst::destructure!{S(%s) = v} }\n" % ", ".join(xs[:-1]), good))
        cases.append(Case("G3-count", "tuple struct n=%d one too many" % n, decl + "fn f(v: S) { konst::destructure!{S(%s, y) = v} }\n" % ", ".join(xs), good))
        tty = "(%s)" % ", ".join(["String"] * n)
        good = "fn f(v: %s) { konst::destructure!{(%s) = v} }\n" % (tty, ", ".join(xs))
        cases.append(Case("G3-count", "tuple n=%d one too few" % n, "fn f(v: %s) { konst::destructure!{(%s%s) = v} }\n" % (tty, ", ".join(xs[:-1]), "," if n == 2 else ""), good))
        cases.append(Case("G3-count", "tuple n=%d one too many" % n, "fn f(v: %s) { konst::destructure!{(%s, y) = v} }\n" % (tty, ", ".join(xs)), good))
        cases.append(Case("G3-count", "tuple n=%d one too few, annotated" % n, "fn f(v: %s) { konst::destructure!{(%s%s): %s = v} }\n" % (tty, ", ".join(xs[:-1]), "," if n == 2 else "", tty), good))
        good = "fn f(v: [String; %d]) { konst::destructure!{[%s] = v} }\n" % (n, ", ".join(xs))
        cases.append(Case("G3-count", "array n=%d one too few" % n, "fn f(v: [String; %d]) { konst::destructure!{[%s] = v} }\n" % (n, ", ".join(xs[:-1])), good))
        cases.append(Case("G3-count", "array n=%d one too many" % n, "fn f(v: [String; %d]) { konst::destructure!{[%s, y] = v} }\n" % (n, ", ".join(xs)), good))
        cases.append(Case("G3-count", "array n=%d too many with rest" % n, "fn f(v: [String; %d]) { konst::destructure!{[%s, y, ..] = v} }\n" % (n, ", ".join(xs)), good))
    # the macro numbers at most 16 fields: patterns beyond the 16th must still be counted / `..` still be seen
    xs16 = ["x%d" % i for i in range(16)]
    t16 = "(%s)" % ", ".join(["u8"] * 16)
    good16 = "fn f(v: %s) { konst::destructure!{(%s) = v} }\n" % (t16, ", ".join(xs16))
    cases.append(Case("G3-count", "tuple n=16 with 17 patterns", "fn f(v: %s) { konst::destructure!{(%s, y) = v} }\n" % (t16, ", ".join(xs16)), good16))
    cases.append(Case("G3-count", "tuple n=16 with 18 patterns", "fn f(v: %s) { konst::destructure!{(%s, y, z) = v} }\n" % (t16, ", ".join(xs16)), good16))
    cases.append(Case("G3-count", "tuple n=16 with 17 patterns, annotated", "fn f(v: %s) { konst::destructure!{(%s, _): %s = v} }\n" % (t16, ", ".join(xs16), t16), good16))
    cases.append(Case("G4-rest", "tuple n=16 with a trailing ..", "fn f(v: %s) { konst::destructure!{(%s, ..) = v} }\n" % (t16, ", ".join(xs16)), good16))
    cases.append(Case("G4-rest", "tuple n=16 with a trailing .., annotated", "fn f(v: %s) { konst::destructure!{(%s, ..): %s = v} }\n" % (t16, ", ".join(xs16), t16), good16))
    decl16 = "struct S16(%s);\n" % ", ".join(["u8"] * 16)
    goods16 = decl16 + "fn f(v: S16) { konst::destructure!{S16(%s) = v} }\n" % ", ".join(xs16)
    cases.append(Case("G3-count", "tuple struct n=16 with 17 patterns", decl16 + "fn f(v: S16) { konst::destructure!{S16(%s, y) = v} }\n" % ", ".join(xs16), goods16))
    cases.append(Case("G4-rest", "tuple struct n=16 with a trailing ..", decl16 + "fn f(v: S16) { konst::destructure!{S16(%s, ..) = v} }\n" % ", ".join(xs16), goods16))
    cases.append(Case("G4-rest", "tuple struct n=16 with a trailing .., annotated", decl16 + "fn f(v: S16) { konst::destructure!{S16(%s, ..): S16 = v} }\n" % ", ".join(xs16), goods16))
    # 1-tuple against a longer tuple and vice versa
    cases.append(Case("G3-count", "1-tuple pattern on a pair", "fn f(v: (String, String)) { konst::destructure!{(a,) = v} }\n", "fn f(v: (String,)) { konst::destructure!{(a,) = v} }\n"))
    cases.append(Case("G3-count", "pair pattern on a 1-tuple", "fn f(v: (String,)) { konst::destructure!{(a, b) = v} }\n", "fn f(v: (String, String)) { konst::destructure!{(a, b) = v} }\n"))
    cases.append(Case("G3-count", "1-tuple pattern on a non-tuple", "fn f(v: String) { konst::destructure!{(a,) = v} }\n", "fn f(v: (String,)) { konst::destructure!{(a,) = v} }\n"))
    # ---------------- G4: `..` in structs and tuples
    decl = "struct S { a: String, b: String, c: String }\n"
    good = decl + "fn f(v: S) { konst::destructure!{S{a, b, c} = v} }\n"
    for pat in ("S{a, ..}", "S{..}", "S{a, b, ..}", "S{a, b, c, ..}"):
        cases.append(Case("G4-rest", "braced struct %s" % pat, decl + "fn f(v: S) { konst::destructure!{%s = v} }\n" % pat, good))
    decl = "struct S(String, String, String);\n"
    good = decl + "fn f(v: S) { konst::destructure!{S(a, b, c) = v} }\n"
    for pat in ("S(a, ..)", "S(.., c)", "S(a, .., c)", "S(..)", "S(a, b, c, ..)"):
        cases.append(Case("G4-rest", "tuple struct %s" % pat, decl + "fn f(v: S) { konst::destructure!{%s = v} }\n" % pat, good))
    good = "fn f(v: (String, String, String)) { konst::destructure!{(a, b, c) = v} }\n"
    for pat in ("(a, ..)", "(.., c)", "(a, .., c)", "(..)", "(a, b, c, ..)"):
        cases.append(Case("G4-rest", "tuple %s" % pat, "fn f(v: (String, String, String)) { konst::destructure!{%s = v} }\n" % pat, good))
        cases.append(Case("G4-rest", "tuple %s const fn" % pat, "const fn f(v: (u8, u8, u8)) { konst::destructure!{%s = v} }\n" % pat, "const fn f(v: (u8, u8, u8)) { konst::destructure!{(a, b, c) = v} }\n"))
    return cases


def gen_iter(rnd):
    cases = []
    src = "&[1u8, 2, 3]"
    neutral = ["copied()", "map(|x| x)", "filter(|_| true)", "enumerate()"]
    reversers = {"rev": "rev()", "rfind": "rfind(|_| true)", "rfold": "rfold(0u32, |a, _| a)", "rposition": "rposition(|_| true)"}
    # G5 double reversal
    for second in reversers:
        for between in ([], ["copied()"], ["copied()", "map(|x| x)"], ["filter(|_| true)"], ["take(2)"], ["skip(1)"], ["copied()", "take(2)", "map(|x| x)"], ["skip_while(|_| false)"], ["take_while(|_| true)"],
                        ["copied()", "zip(0u8..9)", "map(|(x, _)| x)"], ["flatten_dummy"]):
            if between == ["flatten_dummy"]:
                continue
            bad_chain = ["rev()"] + between + [reversers[second]]
            good_chain = between + [reversers[second]]
            if second == "rev":
                bad = "fn f() -> usize { konst::iter::eval!(%s, count()) }\n" % ", ".join([src] + bad_chain)
                good = "fn f() -> usize { konst::iter::eval!(%s, count()) }\n" % ", ".join([src] + good_chain)
                cases.append(Case("G5-double-reversal", "eval! rev .. rev (%d between)" % len(between), bad, good))
                cases.append(Case("G5-double-reversal", "for_each! rev .. rev (%d between)" % len(between), "fn f() { konst::iter::for_each!{_x in %s => } }\n" % ", ".join([src] + bad_chain), "fn f() { konst::iter::for_each!{_x in %s => } }\n" % ", ".join([src] + good_chain)))
                if not any("filter" in b or "map" in b for b in between):
                    cases.append(Case("G5-double-reversal", "collect_const! rev .. rev (%d between)" % len(between), "const X: [%s; 3] = konst::iter::collect_const!(%s => %s);\n" % ("u8" if between else "&u8", "u8" if between else "&u8", ", ".join([src] + bad_chain)), "const X: [%s; 3] = konst::iter::collect_const!(%s => %s);\n" % ("u8" if between else "&u8", "u8" if between else "&u8", ", ".join([src] + good_chain))))
            else:
                bad = "fn f() { let _ = konst::iter::eval!(%s); }\n" % ", ".join([src] + bad_chain)
                good = "fn f() { let _ = konst::iter::eval!(%s); }\n" % ", ".join([src] + good_chain)
                cases.append(Case("G5-double-reversal", "eval! rev .. %s (%d between)" % (second, len(between)), bad, good))
    # a state-carrying adapter between the two reversals
    for mid, fix in (("enumerate()", "map(|(_, x)| x)"), ("take(3)", None), ("skip(1)", None), ("zip(5u8..9)", "map(|(x, _)| x)")):
        chain = ["copied()", "rev()", mid] + ([fix] if fix else [])
        for second, stxt in reversers.items():
            bad = "fn f() { let _ = konst::iter::eval!(%s); }\n" % ", ".join([src] + chain + [("rev(), count()" if second == "rev" else stxt)])
            good = "fn f() { let _ = konst::iter::eval!(%s); }\n" % ", ".join([src] + [c for c in chain if c != "rev()"] + [("rev(), count()" if second == "rev" else stxt)])
            cases.append(Case("G5-double-reversal", "eval! rev, %s, %s" % (mid.split("(")[0], second), bad, good))
        cases.append(Case("G5-double-reversal", "for_each! rev, %s, rev" % mid.split("(")[0], "fn f() { konst::iter::for_each!{_x in %s => } }\n" % ", ".join([src] + chain + ["rev()"]), "fn f() { konst::iter::for_each!{_x in %s => } }\n" % ", ".join([src] + chain)))
    cases.append(Case("G5-double-reversal", "collect_const! rev, take, rev", "const X: [usize; 3] = konst::iter::collect_const!(usize => 0..10, rev(), take(3), rev());\n", "const X: [usize; 3] = konst::iter::collect_const!(usize => 0..10, rev(), take(3));\n"))
    # three reversals are also rejected (odd count does not make it valid)
    cases.append(Case("G5-double-reversal", "eval! rev, rev, rev", "fn f() -> usize { konst::iter::eval!(%s, rev(), rev(), rev(), count()) }\n" % src, "fn f() -> usize { konst::iter::eval!(%s, rev(), count()) }\n" % src))
    # G6 unsupported methods
    unsupported = ["step_by(2)", "chain(&[4u8])", "cycle()", "peekable()", "scan(0, |_, x| Some(x))", "inspect(|_| ())", "fuse()", "map_while(|x| Some(x))", "skip_last()", "intersperse(&0)", "by_ref()", "cloned()", "array_chunks()",
                   "last()", "min()", "max()", "sum()", "product()", "reduce(|a, _| a)", "try_fold(0, |a, _| Some(a))", "collect()", "nth_back(0)", "max_by(|_, _| core::cmp::Ordering::Equal)", "min_by_key(|x| *x)", "is_sorted()", "unzip()", "partition(|_| true)", "eq(&[1u8])", "for_all(|_| true)"]
    for m in unsupported:
        name = m.split("(")[0]
        as_adapter = "fn f() -> usize { konst::iter::eval!(%s, %s, count()) }\n" % (src, m)
        as_consumer = "fn f() { let _ = konst::iter::eval!(%s, %s); }\n" % (src, m)
        good = "fn f() -> usize { konst::iter::eval!(%s, copied(), count()) }\n" % src
        cases.append(Case("G6-unsupported-method", "eval! %s in adapter position" % name, as_adapter, good))
        cases.append(Case("G6-unsupported-method", "eval! %s in consumer position" % name, as_consumer, good))
        cases.append(Case("G6-unsupported-method", "for_each! %s" % name, "fn f() { konst::iter::for_each!{_x in %s, %s => } }\n" % (src, m), "fn f() { konst::iter::for_each!{_x in %s, copied() => } }\n" % src))
    # consumers inside adapter-only macros
    for c in ("count()", "next()", "all(|_| true)", "find(|_| true)", "fold(0u8, |a, _| a)", "position(|_| true)", "nth(0)", "for_each(|_| ())", "rfind(|_| true)"):
        name = c.split("(")[0]
        cases.append(Case("G6-unsupported-method", "for_each! with consumer %s" % name, "fn f() { konst::iter::for_each!{_x in %s, %s => } }\n" % (src, c), "fn f() { konst::iter::for_each!{_x in %s => } }\n" % src))
        cases.append(Case("G6-unsupported-method", "collect_const! with consumer %s" % name, "const X: [&u8; 3] = konst::iter::collect_const!(&u8 => %s, %s);\n" % (src, c), "const X: [&u8; 3] = konst::iter::collect_const!(&u8 => %s);\n" % src))
    # G7 arguments to argument-less methods
    for m, after in (("copied", "count()"), ("enumerate", "count()"), ("rev", "count()"), ("flatten", "count()")):
        s2 = "&[[1u8, 2], [3, 4]]" if m == "flatten" else src
        good = "fn f() -> usize { konst::iter::eval!(%s, %s(), %s) }\n" % (s2, m, after)
        for args in ("1", "1, 2", "|x| x", "()"):
            cases.append(Case("G7-args-to-argless", "eval! %s(%s)" % (m, args), "fn f() -> usize { konst::iter::eval!(%s, %s(%s), %s) }\n" % (s2, m, args, after), good))
        cases.append(Case("G7-args-to-argless", "for_each! %s(1)" % m, "fn f() { konst::iter::for_each!{_x in %s, %s(1) => } }\n" % (s2, m), "fn f() { konst::iter::for_each!{_x in %s, %s() => } }\n" % (s2, m)))
    for m in ("count", "next"):
        good = "fn f() { let _ = konst::iter::eval!(%s, %s()); }\n" % (src, m)
        for args in ("1", "1, 2", "|x| x"):
            cases.append(Case("G7-args-to-argless", "eval! %s(%s)" % (m, args), "fn f() { let _ = konst::iter::eval!(%s, %s(%s)); }\n" % (src, m, args), good))
    return cases


def gen_parser_method():
    cases = []
    pre = "use konst::Parser;\nconst C: &str = \"a\";\n"
    for m in ("strip_prefix", "strip_suffix", "find_skip", "rfind_skip"):
        good = pre + "fn f(mut p: Parser<'_>) -> u8 { konst::parser_method!{p, %s; \"a\" => 1, _ => 0} }\n" % m
        for nm, pat in (("const ident", "C"), ("format!", "format!(\"a\")"), ("byte string", "b\"a\""), ("char literal", "'a'"), ("integer", "1"), ("str expression", "&*\"a\""), ("parenthesised literal", "(\"a\")"), ("byte", "b'a'"), ("literal | const", "\"b\" | C"), ("env!-like macro", "file!()"),
                        ("range to a const", "\"a\"..=C"), ("range of literals", "\"a\"..=\"b\""), ("half-open range", "\"a\".."), ("literal @ binding", "x @ \"a\""), ("reference pattern", "&\"a\""),
                        ("concat! with a const inside", "concat!(\"a\", C)"), ("concat! with a const first", "concat!(C, \"a\")"), ("concat! with only a const", "concat!(C)"), ("nested concat! with a const", "concat!(\"a\", concat!(\"b\", C))"),
                        ("concat! with an expression", "concat!(\"a\", {\"b\"})"), ("concat! | const", "concat!(\"a\") | C")):
            cases.append(Case("G8-parser_method", "%s non-literal pattern: %s" % (m, nm), pre + "fn f(mut p: Parser<'_>) -> u8 { konst::parser_method!{p, %s; %s => 1, _ => 0} }\n" % (m, pat), good))
        cases.append(Case("G8-parser_method", "%s missing default branch" % m, pre + "fn f(mut p: Parser<'_>) -> u8 { konst::parser_method!{p, %s; \"a\" => 1} }\n" % m, good))
        cases.append(Case("G8-parser_method", "%s missing default branch (two arms)" % m, pre + "fn f(mut p: Parser<'_>) -> u8 { konst::parser_method!{p, %s; \"a\" => 1, \"b\" => 2} }\n" % m, good))
        cases.append(Case("G8-parser_method", "%s branch after default" % m, pre + "fn f(mut p: Parser<'_>) -> u8 { konst::parser_method!{p, %s; \"a\" => 1, _ => 0, \"b\" => 2} }\n" % m, good))
        cases.append(Case("G8-parser_method", "%s no branches" % m, pre + "fn f(mut p: Parser<'_>) { konst::parser_method!{p, %s; } }\n" % m, good))
    for m in ("trim_start_matches", "trim_end_matches"):
        good = pre + "fn f(mut p: Parser<'_>) { konst::parser_method!{p, %s; \"a\" | \"b\"} }\n" % m
        for nm, pat in (("const ident", "C"), ("format!", "format!(\"a\")"), ("byte string", "b\"a\""), ("char literal", "'a'"), ("integer", "1"), ("literal | const", "\"b\" | C"), ("concat! with a const inside", "concat!(\"a\", C)"), ("concat! with only a const", "concat!(C)")):
            cases.append(Case("G8-parser_method", "%s non-literal pattern: %s" % (m, nm), pre + "fn f(mut p: Parser<'_>) { konst::parser_method!{p, %s; %s} }\n" % (m, pat), good))
    cases.append(Case("G8-parser_method", "unknown method name", pre + "fn f(mut p: Parser<'_>) -> u8 { konst::parser_method!{p, split; \"a\" => 1, _ => 0} }\n", pre + "fn f(mut p: Parser<'_>) -> u8 { konst::parser_method!{p, find_skip; \"a\" => 1, _ => 0} }\n"))
    return cases


def run(out, tier, seed):
    cx = Ctx("c17")
    rnd = random.Random(seed)
    cases = gen_destructure() + gen_iter(rnd) + gen_parser_method()
    srcs = []
    for i, c in enumerate(cases):
        srcs.append(cx.write("c17_%04d_bad.rs" % i, c.bad))
        srcs.append(cx.write("c17_%04d_good.rs" % i, c.good))
    res = cx.compile_many(srcs, metadata=True)
    hist = {}
    rejected = 0
    inconclusive_pairs = []
    samples = []
    for i, c in enumerate(cases):
        (brc, bse, _), (grc, gse, _) = res[2 * i], res[2 * i + 1]
        if brc is None or grc is None:
            raise kv.Inconclusive("watchdog: rustc did not finish on a C17 program")
        hist[c.guard + ":programs"] = hist.get(c.guard + ":programs", 0) + 2
        if grc != 0:
            inconclusive_pairs.append("%s: control does not compile: %s" % (c.name, first_error(gse)[:160]))
            continue
        if brc == 0:
            if c.known:
                out.failures.append({"sig": c.known, "api": "destructure!", "input": c.name + " | " + c.bad.replace("\n", " ")[:300], "got": "compiles", "want": "rejected at compile time", "engine": "rustc-verdict", "variant": "", "sub": "", "cmd": "rustc --emit=metadata " + srcs[2 * i], "count_for_sig": 1})
            else:
                out.fail("misuse-compiles:%s:%s" % (c.guard, re.sub(r"[^A-Za-z0-9_!&\[\]().,{}| -]", "", c.name)[:70]), c.guard, c.name + " | " + c.bad.replace("\n", " ")[:400], "the invalid program compiles", "rejected at compile time (the control differs only in the offending element and compiles)", "rustc-verdict", cmd="rustc --emit=metadata " + srcs[2 * i], source=srcs[2 * i])
        else:
            rejected += 1
            code = re.search(r"error(\[E\d+\])?", bse or "")
            hist[c.guard + ":rejected"] = hist.get(c.guard + ":rejected", 0) + 1
            if len(samples) < 8 and i % 37 == 0:
                samples.append("%s [%s]: `%s` rejected (%s); control compiles" % (c.guard, c.name, c.bad.splitlines()[-1][:160], first_error(bse)[:100]))
    if kv.os.environ.get("KV_C17_DEBUG"):
        for x in inconclusive_pairs:
            kv.log("C17 control failed:", x)
    if len(inconclusive_pairs) > max(3, len(cases) // 20):
        raise kv.Inconclusive("%d of %d control programs do not compile (generator/toolchain problem or a different defect), e.g. %s" % (len(inconclusive_pairs), len(cases), inconclusive_pairs[0]))
    out.notes.extend("inconclusive pair: " + x for x in inconclusive_pairs[:20])
    out.counters["pairs"] = len(cases)
    out.counters["pairs_inconclusive_control_failed"] = len(inconclusive_pairs)
    out.add_counts("rustc-verdict", 2 * len(cases), "c17-pairs", rejected, samples,
                   rule="one evaluation = one rustc run (--emit=metadata) on a generated program; each invalid program (one guard violated in one syntactic shape) is paired with a control that differs only in the offending element; distinct_nontrivial = number of distinct invalid programs that were rejected while their control compiled",
                   exhaustive="G1 Drop (braced/tuple structs, 1-3 fields, fn/const fn, generic, path/annotated/turbofish/renamed forms, Drop types through the tuple arm, field-less = K2), G2 reference (&/&mut x braced, tuple struct, tuple arity 1-4, arrays with/without rest, +annotation), G3 count (too few/many/duplicate x 4 shapes), G4 `..` (start/middle/end/alone x struct, tuple struct, tuple), G5 double reversal (rev/rfind/rfold/rposition after rev, 0-2 adapters between, eval!/for_each!/collect_const!), G6 29 unsupported method names x adapter/consumer position + consumers in adapter-only macros, G7 arguments to copied/enumerate/rev/flatten/count/next, G8 parser_method! non-literal patterns, missing/misplaced default x 6 methods",
                   hist=hist)
