"""C19 – Option/Result, rebind, try_ and min/max macros equal their std / `?` counterparts.

One generated program file per batch: (A) option::/result:: macros in every accepted argument form
x both variants x payloads, with a call-counter monitor on the fallback closures; (B) try_!/try_opt!
vs `?`; (C) try_rebind!/rebind_if_ok! for every arity 1..=6 with each position an existing place,
`let x`, `let x: T` or `_` (all 4^k for k <= 4, single-position variations and seeded random
combinations for k = 5, 6); (D) min!/max! and their _by/_by_key forms over keyed values with
distinguishable identity. A valid generated program that fails to compile is a violation
(statement: "they assign every component ... for a tuple of up to six").
"""
import itertools
import random
import re

from gcommon import Ctx, first_error
import kv

PRIMES = [2, 3, 5, 7, 11, 13]

STATIC = r'''
#![allow(unused, clippy::all)]
use std::cell::Cell;
use std::cmp::Ordering;
use konst::{option, result};

static mut EVALS: u64 = 0;
fn ev() { unsafe { EVALS += 1; } }
macro_rules! chk {
    ($name:expr, $k:expr, $s:expr) => {{
        ev();
        let (k, s) = ($k, $s);
        if k != s { println!("FAIL\t{}\t{:?}\t{:?}", $name, k, s); }
    }};
}
/// evaluates `$e` with a fresh call counter `$c` available to closures; returns (value, calls)
macro_rules! counted { ($c:ident, $e:expr) => {{ let $c = Cell::new(0u32); let v = $e; (v, $c.get()) }}; }

fn dbl(x: u32) -> u32 { bump(); x.wrapping_mul(2) }
fn dbl_opt(x: u32) -> Option<u32> { bump(); if x % 2 == 0 { Some(x / 2) } else { None } }
fn dbl_res(x: u32) -> Result<u32, String> { bump(); if x % 2 == 0 { Ok(x / 2) } else { Err(format!("odd{}", x)) } }
fn is_even(x: &u32) -> bool { bump(); *x % 2 == 0 }
thread_local! { static FN_CALLS: Cell<u32> = const { Cell::new(0) }; }
fn bump() { FN_CALLS.with(|c| c.set(c.get() + 1)); }
/// evaluates `$e`; returns (value, number of calls made to the counted fallback *functions*)
macro_rules! fcounted { ($e:expr) => {{ FN_CALLS.with(|c| c.set(0)); let v = $e; (v, FN_CALLS.with(|c| c.get())) }}; }
fn seven() -> u32 { bump(); 7 }
fn none_u32() -> Option<u32> { bump(); None }
fn some9() -> Option<u32> { bump(); Some(9) }
fn elen(e: String) -> u32 { bump(); e.len() as u32 }
fn estr(e: String) -> String { bump(); format!("<{}>", e) }
fn rec(e: String) -> Result<u32, String> { bump(); if e.len() % 2 == 0 { Ok(e.len() as u32) } else { Err(format!("{}!", e)) } }
fn slen(s: String) -> usize { bump(); s.len() }

fn options_and_results() {
    let opts: [Option<u32>; 5] = [None, Some(0), Some(1), Some(6), Some(u32::MAX)];
    for o in opts {
        chk!("option::unwrap_or!", option::unwrap_or!(o, 7), o.unwrap_or(7));
        chk!("option::unwrap_or_else!(closure)", counted!(c, option::unwrap_or_else!(o, || { c.set(c.get() + 1); 7 })), counted!(c, o.unwrap_or_else(|| { c.set(c.get() + 1); 7 })));
        chk!("option::unwrap_or_else!(fn)", fcounted!(option::unwrap_or_else!(o, seven)), fcounted!(o.unwrap_or_else(seven)));
        chk!("option::ok_or!", option::ok_or!(o, "e"), o.ok_or("e"));
        chk!("option::ok_or_else!(closure)", counted!(c, option::ok_or_else!(o, || { c.set(c.get() + 1); 7u8 })), counted!(c, o.ok_or_else(|| { c.set(c.get() + 1); 7u8 })));
        chk!("option::ok_or_else!(fn)", fcounted!(option::ok_or_else!(o, seven)), fcounted!(o.ok_or_else(seven)));
        chk!("option::map!(closure)", counted!(c, option::map!(o, |x| { c.set(c.get() + 1); x.wrapping_add(3) })), counted!(c, o.map(|x| { c.set(c.get() + 1); x.wrapping_add(3) })));
        chk!("option::map!(fn)", fcounted!(option::map!(o, dbl)), fcounted!(o.map(dbl)));
        chk!("option::and_then!(closure)", counted!(c, option::and_then!(o, |x| { c.set(c.get() + 1); if x > 0 { Some(x - 1) } else { None } })), counted!(c, o.and_then(|x| { c.set(c.get() + 1); if x > 0 { Some(x - 1) } else { None } })));
        chk!("option::and_then!(fn)", fcounted!(option::and_then!(o, dbl_opt)), fcounted!(o.and_then(dbl_opt)));
        chk!("option::or_else!(closure)", counted!(c, option::or_else!(o, || { c.set(c.get() + 1); Some(9) })), counted!(c, o.or_else(|| { c.set(c.get() + 1); Some(9) })));
        chk!("option::or_else!(closure->None)", option::or_else!(o, || None), o.or_else(|| None));
        chk!("option::or_else!(fn)", fcounted!(option::or_else!(o, some9)), fcounted!(o.or_else(some9)));
        chk!("option::or_else!(fn->None)", fcounted!(option::or_else!(o, none_u32)), fcounted!(o.or_else(none_u32)));
        chk!("option::filter!(closure)", counted!(c, option::filter!(o, |x| { c.set(c.get() + 1); *x % 2 == 0 })), counted!(c, o.filter(|x| { c.set(c.get() + 1); *x % 2 == 0 })));
        chk!("option::filter!(pattern)", option::filter!(o, |&x| x > 0), o.filter(|&x| x > 0));
        chk!("option::filter!(fn)", fcounted!(option::filter!(o, is_even)), fcounted!(o.filter(is_even)));
        chk!("option::copied", option::copied(o.as_ref()), o.as_ref().copied());
        chk!("option::unwrap!", std::panic::catch_unwind(|| option::unwrap!(o)).ok(), o);
        for oo in [None, Some(None), Some(o)] {
            chk!("option::flatten!", option::flatten!(oo), oo.flatten());
        }
        // pattern parameter
        let pair = o.map(|x| (x, 5u32));
        chk!("option::map!(pattern)", option::map!(pair, |(a, b)| a.wrapping_add(b)), pair.map(|(a, b)| a.wrapping_add(b)));
        chk!("option::and_then!(pattern)", option::and_then!(pair, |(a, _)| Some(a)), pair.and_then(|(a, _)| Some(a)));
    }
    // non-Copy payload: values are moved, not duplicated
    for o in [None, Some(String::from("ab")), Some(String::new())] {
        chk!("option::unwrap_or!(String)", option::unwrap_or!(o.clone(), String::from("d")), o.clone().unwrap_or(String::from("d")));
        chk!("option::unwrap_or_else!(String)", counted!(c, option::unwrap_or_else!(o.clone(), || { c.set(c.get() + 1); String::from("d") })), counted!(c, o.clone().unwrap_or_else(|| { c.set(c.get() + 1); String::from("d") })));
        chk!("option::map!(String)", option::map!(o.clone(), |s| s.len()), o.clone().map(|s| s.len()));
        chk!("option::map!(String,fn)", fcounted!(option::map!(o.clone(), slen)), fcounted!(o.clone().map(slen)));
        chk!("option::ok_or!(String)", option::ok_or!(o.clone(), 1u8), o.clone().ok_or(1u8));
        chk!("option::filter!(String)", option::filter!(o.clone(), |s| !s.is_empty()), o.clone().filter(|s| !s.is_empty()));
        chk!("option::and_then!(String)", option::and_then!(o.clone(), |s| if s.is_empty() { None } else { Some(s) }), o.clone().and_then(|s| if s.is_empty() { None } else { Some(s) }));
        chk!("option::or_else!(String)", option::or_else!(o.clone(), || Some(String::from("z"))), o.clone().or_else(|| Some(String::from("z"))));
    }
    let ress: [Result<u32, String>; 5] = [Ok(0), Ok(3), Ok(u32::MAX), Err(String::new()), Err(String::from("bad"))];
    for r in ress {
        let rc = || r.clone();
        chk!("result::unwrap_or!", result::unwrap_or!(rc(), 7), rc().unwrap_or(7));
        chk!("result::unwrap_or_else!(closure)", counted!(c, result::unwrap_or_else!(rc(), |e| { c.set(c.get() + 1); e.len() as u32 })), counted!(c, rc().unwrap_or_else(|e| { c.set(c.get() + 1); e.len() as u32 })));
        chk!("result::unwrap_or_else!(fn)", fcounted!(result::unwrap_or_else!(rc(), elen)), fcounted!(rc().unwrap_or_else(elen)));
        chk!("result::unwrap_err_or_else!(closure)", counted!(c, result::unwrap_err_or_else!(rc(), |v| { c.set(c.get() + 1); format!("v{}", v) })), counted!(c, match rc() { Ok(v) => { c.set(c.get() + 1); format!("v{}", v) } Err(e) => e }));
        chk!("result::unwrap_err_or_else!(fn)", fcounted!(result::unwrap_err_or_else!(rc().map(|v| v.to_string()), estr)), fcounted!(match rc() { Ok(v) => estr(v.to_string()), Err(e) => e }));
        chk!("result::ok!", result::ok!(rc()), rc().ok());
        chk!("result::err!", result::err!(rc()), rc().err());
        chk!("result::map!(closure)", counted!(c, result::map!(rc(), |x| { c.set(c.get() + 1); x.wrapping_add(1) })), counted!(c, rc().map(|x| { c.set(c.get() + 1); x.wrapping_add(1) })));
        chk!("result::map!(fn)", fcounted!(result::map!(rc(), dbl)), fcounted!(rc().map(dbl)));
        chk!("result::map_err!(closure)", counted!(c, result::map_err!(rc(), |e| { c.set(c.get() + 1); e.len() })), counted!(c, rc().map_err(|e| { c.set(c.get() + 1); e.len() })));
        chk!("result::map_err!(fn)", fcounted!(result::map_err!(rc(), estr)), fcounted!(rc().map_err(estr)));
        chk!("result::and_then!(closure)", counted!(c, result::and_then!(rc(), |x| { c.set(c.get() + 1); if x > 0 { Ok(x - 1) } else { Err(String::from("zero")) } })), counted!(c, rc().and_then(|x| { c.set(c.get() + 1); if x > 0 { Ok(x - 1) } else { Err(String::from("zero")) } })));
        chk!("result::and_then!(fn)", fcounted!(result::and_then!(rc(), dbl_res)), fcounted!(rc().and_then(dbl_res)));
        chk!("result::or_else!(closure)", counted!(c, result::or_else!(rc(), |e| { c.set(c.get() + 1); if e.is_empty() { Ok(1u32) } else { Err(e.len()) } })), counted!(c, rc().or_else(|e| { c.set(c.get() + 1); if e.is_empty() { Ok(1u32) } else { Err(e.len()) } })));
        chk!("result::or_else!(fn)", fcounted!(result::or_else!(rc(), rec)), fcounted!(rc().or_else(rec)));
        // pattern parameters
        let rp: Result<(u32, u32), (u8, u8)> = match rc() { Ok(v) => Ok((v, 2)), Err(e) => Err((e.len() as u8, 9)) };
        chk!("result::map!(pattern)", result::map!(rp, |(a, b)| a.wrapping_mul(b)), rp.map(|(a, b)| a.wrapping_mul(b)));
        chk!("result::map_err!(pattern)", result::map_err!(rp, |(a, _)| a), rp.map_err(|(a, _)| a));
        chk!("result::unwrap_or_else!(pattern)", result::unwrap_or_else!(rp, |(a, b)| (a as u32, b as u32)), rp.unwrap_or_else(|(a, b)| (a as u32, b as u32)));
    }
}

// ---- every argument expression of the option:: / result:: macros is evaluated exactly once (std's methods
// receive values); observed = (result, number of evaluations of the argument expressions)
/// records *which* operand expression ran, in order: the trace of `f(a(), b())` is 12
fn tkl<T>(c: &Cell<u32>, label: u32, v: T) -> T { c.set(c.get() * 10 + label); v }
fn tk<T>(c: &Cell<u32>, v: T) -> T { tkl(c, 1, v) }
fn argument_expressions() {
    let opts: [Option<u32>; 3] = [None, Some(2), Some(5)];
    for o in opts {
        chk!("option::unwrap_or!(args once)", counted!(c, option::unwrap_or!(tk(&c, o), tkl(&c, 2, 7))), counted!(c, tk(&c, o).unwrap_or(tkl(&c, 2, 7))));
        chk!("option::unwrap_or_else!(arg once)", counted!(c, option::unwrap_or_else!(tk(&c, o), || 7)), counted!(c, tk(&c, o).unwrap_or_else(|| 7)));
        chk!("option::ok_or!(args once)", counted!(c, option::ok_or!(tk(&c, o), tkl(&c, 2, "e"))), counted!(c, tk(&c, o).ok_or(tkl(&c, 2, "e"))));
        chk!("option::ok_or_else!(arg once)", counted!(c, option::ok_or_else!(tk(&c, o), || 1u8)), counted!(c, tk(&c, o).ok_or_else(|| 1u8)));
        chk!("option::map!(arg once)", counted!(c, option::map!(tk(&c, o), |x| x + 1)), counted!(c, tk(&c, o).map(|x| x + 1)));
        chk!("option::map!(arg once, fn)", counted!(c, option::map!(tk(&c, o), dbl)), counted!(c, tk(&c, o).map(dbl)));
        chk!("option::and_then!(arg once)", counted!(c, option::and_then!(tk(&c, o), |x| if x > 2 { Some(x) } else { None })), counted!(c, tk(&c, o).and_then(|x| if x > 2 { Some(x) } else { None })));
        chk!("option::or_else!(arg once)", counted!(c, option::or_else!(tk(&c, o), || Some(9))), counted!(c, tk(&c, o).or_else(|| Some(9))));
        chk!("option::filter!(arg once)", counted!(c, option::filter!(tk(&c, o), |x| *x > 2)), counted!(c, tk(&c, o).filter(|x| *x > 2)));
        chk!("option::flatten!(arg once)", counted!(c, option::flatten!(tk(&c, Some(o)))), counted!(c, tk(&c, Some(o)).flatten()));
        chk!("option::copied(arg once)", counted!(c, option::copied(tk(&c, o.as_ref()))), counted!(c, tk(&c, o.as_ref()).copied()));
    }
    let ress: [Result<u32, u8>; 3] = [Ok(0), Ok(4), Err(3)];
    for r in ress {
        chk!("result::unwrap_or!(args once)", counted!(c, result::unwrap_or!(tk(&c, r), tkl(&c, 2, 7))), counted!(c, tk(&c, r).unwrap_or(tkl(&c, 2, 7))));
        chk!("result::unwrap_or_else!(arg once)", counted!(c, result::unwrap_or_else!(tk(&c, r), |e| e as u32)), counted!(c, tk(&c, r).unwrap_or_else(|e| e as u32)));
        chk!("result::unwrap_err_or_else!(arg once)", counted!(c, result::unwrap_err_or_else!(tk(&c, r), |v| v as u8)), counted!(c, match tk(&c, r) { Ok(v) => v as u8, Err(e) => e }));
        chk!("result::ok!(arg once)", counted!(c, result::ok!(tk(&c, r))), counted!(c, tk(&c, r).ok()));
        chk!("result::err!(arg once)", counted!(c, result::err!(tk(&c, r))), counted!(c, tk(&c, r).err()));
        chk!("result::map!(arg once)", counted!(c, result::map!(tk(&c, r), |x| x + 1)), counted!(c, tk(&c, r).map(|x| x + 1)));
        chk!("result::map_err!(arg once)", counted!(c, result::map_err!(tk(&c, r), |e| e + 1)), counted!(c, tk(&c, r).map_err(|e| e + 1)));
        chk!("result::and_then!(arg once)", counted!(c, result::and_then!(tk(&c, r), |x| if x > 0 { Ok(x) } else { Err(0u8) })), counted!(c, tk(&c, r).and_then(|x| if x > 0 { Ok(x) } else { Err(0u8) })));
        chk!("result::or_else!(arg once)", counted!(c, result::or_else!(tk(&c, r), |e| if e > 5 { Ok(1u32) } else { Err(e) })), counted!(c, tk(&c, r).or_else(|e| if e > 5 { Ok(1u32) } else { Err(e) })));
        fn kt(c: &Cell<u32>, r: Result<u32, u8>) -> Result<u32, u8> { let x = konst::try_!(tk(c, r)); Ok(x + 1) }
        fn st(c: &Cell<u32>, r: Result<u32, u8>) -> Result<u32, u8> { let x = tk(c, r)?; Ok(x + 1) }
        chk!("try_!(arg once)", counted!(c, kt(&c, r)), counted!(c, st(&c, r)));
        fn kr(c: &Cell<u32>, r: Result<u32, u8>) -> Result<u32, u8> { let mut x = 0u32; konst::try_rebind!{x = tk(c, r)}; Ok(x) }
        chk!("try_rebind!(arg once)", counted!(c, kr(&c, r)), counted!(c, st(&c, r).map(|x| x - 1)));
        fn ki(c: &Cell<u32>, r: Result<u32, u8>) -> u32 { let mut x = 99u32; konst::rebind_if_ok!{x = tk(c, r)}; x }
        chk!("rebind_if_ok!(arg once)", counted!(c, ki(&c, r)), counted!(c, { let mut x = 99u32; if let Ok(v) = tk(&c, r) { x = v; } x }));
    }
    for o in [None, Some(3u32)] {
        fn ko(c: &Cell<u32>, o: Option<u32>) -> Option<u32> { let x = konst::try_opt!(tk(c, o)); Some(x + 1) }
        fn so(c: &Cell<u32>, o: Option<u32>) -> Option<u32> { let x = tk(c, o)?; Some(x + 1) }
        chk!("try_opt!(arg once)", counted!(c, ko(&c, o)), counted!(c, so(&c, o)));
    }
}

// ---- try_! / try_opt! vs `?`
fn k_try(r: Result<u32, String>) -> Result<u32, String> { let x = konst::try_!(r); Ok(x.wrapping_add(1)) }
fn s_try(r: Result<u32, String>) -> Result<u32, String> { let x = r?; Ok(x.wrapping_add(1)) }
fn k_try_me(r: Result<u32, u8>) -> Result<u32, String> { let x = konst::try_!(r, map_err = |e| format!("e{}", e)); Ok(x.wrapping_add(1)) }
fn s_try_me(r: Result<u32, u8>) -> Result<u32, String> { let x = r.map_err(|e| format!("e{}", e))?; Ok(x.wrapping_add(1)) }
fn k_try_me_ign(r: Result<u32, u8>) -> Result<u32, &'static str> { let x = konst::try_!(r, map_err = |_| "fixed"); Ok(x) }
fn s_try_me_ign(r: Result<u32, u8>) -> Result<u32, &'static str> { let x = r.map_err(|_| "fixed")?; Ok(x) }
fn k_try2(a: Result<String, u8>, b: Result<String, u8>) -> Result<String, u8> { let x = konst::try_!(a); let y = konst::try_!(b); Ok(x + &y) }
fn s_try2(a: Result<String, u8>, b: Result<String, u8>) -> Result<String, u8> { let x = a?; let y = b?; Ok(x + &y) }
fn k_try_opt(o: Option<u32>) -> Option<u32> { let x = konst::try_opt!(o); Some(x.wrapping_add(1)) }
fn s_try_opt(o: Option<u32>) -> Option<u32> { let x = o?; Some(x.wrapping_add(1)) }
fn k_try_opt2(a: Option<String>, b: Option<String>) -> Option<String> { let x = konst::try_opt!(a); let y = konst::try_opt!(b); Some(x + &y) }
fn s_try_opt2(a: Option<String>, b: Option<String>) -> Option<String> { let x = a?; let y = b?; Some(x + &y) }

fn tries() {
    for r in [Ok(0u32), Ok(u32::MAX), Err(String::from("x")), Err(String::new())] { chk!("try_!", k_try(r.clone()), s_try(r)); }
    for r in [Ok(0u32), Ok(5), Err(0u8), Err(255)] { chk!("try_!(map_err)", k_try_me(r), s_try_me(r)); chk!("try_!(map_err,_)", k_try_me_ign(r), s_try_me_ign(r)); }
    for a in [Ok(String::from("a")), Err(1u8)] { for b in [Ok(String::from("b")), Err(2u8)] { chk!("try_!(two)", k_try2(a.clone(), b.clone()), s_try2(a.clone(), b)); } }
    for o in [None, Some(0u32), Some(u32::MAX)] { chk!("try_opt!", k_try_opt(o), s_try_opt(o)); }
    for a in [Some(String::from("a")), None] { for b in [Some(String::from("b")), None] { chk!("try_opt!(two)", k_try_opt2(a.clone(), b.clone()), s_try_opt2(a.clone(), b)); } }
}

// ---- rebind patterns whose targets depend on each other: components are assigned first to last
fn dependent_targets() {
    fn k1() -> Result<u32, u8> { let mut x = 0u32; konst::try_rebind!{(x, x) = Ok::<(u32, u32), u8>((1, 2))}; Ok(x) }
    chk!("try_rebind!((x, x)): the later component wins", k1(), Ok::<u32, u8>(2));
    fn k2() -> Result<[u8; 4], u8> { let mut arr = [0u8; 4]; let mut i = 0usize; konst::try_rebind!{(i, arr[i], let tail) = Ok::<(usize, u8, u8), u8>((2, 9, 7))}; arr[3] = tail; Ok(arr) }
    chk!("try_rebind!((i, arr[i], let tail)): the index assigned first is used", k2(), Ok::<[u8; 4], u8>([0, 0, 9, 7]));
    fn k3() -> ([u32; 3], u32) {
        let mut arr = [0u32; 3]; let k = 0usize; let mut last = 0u32;
        konst::rebind_if_ok!{(let k, arr[k], let k, arr[k], let k, last) = Ok::<(usize, u32, usize, u32, usize, u32), u8>((1, 10, 2, 20, 0, 30)) => arr[k] += last;}
        (arr, last)
    }
    chk!("rebind_if_ok!(shadowing lets between indexed places)", k3(), ([30u32, 10, 20], 30u32));
    fn k4() -> Result<(u8, u8), u8> { let mut p = (0u8, 0u8); konst::try_rebind!{(p.0, p.1, p.0) = Ok::<(u8, u8, u8), u8>((1, 2, 3))}; Ok(p) }
    chk!("try_rebind!((p.0, p.1, p.0))", k4(), Ok::<(u8, u8), u8>((3, 2)));
    fn k5() -> Result<u64, u8> { let mut x = 0u64; konst::try_rebind!{(x, _, x, _, x, x) = Ok::<(u64, u64, u64, u64, u64, u64), u8>((1, 2, 3, 4, 5, 6))}; Ok(x) }
    chk!("try_rebind!((x, _, x, _, x, x))", k5(), Ok::<u64, u8>(6));
}

// ---- typed `let` components whose annotation is a coercion target of the component type: the binding has the
// annotated type, exactly like `let x: T = t.N;` (unsizing, &mut -> &, fn item -> fn pointer, &T -> &dyn Trait)
fn coercing_annotations() {
    use std::any::type_name_of_val as tn;
    use std::mem::size_of_val as sz;
    static ARR: [u8; 4] = [1, 2, 3, 4];
    fn inc(x: u8) -> u8 { x + 1 }
    trait Kind { fn kind(&self) -> &'static str; }
    impl Kind for &[u8] { fn kind(&self) -> &'static str { "slice" } }
    impl Kind for &[u8; 4] { fn kind(&self) -> &'static str { "array" } }
    fn src() -> Result<(&'static [u8; 4], u32), u8> { Ok((&ARR, 7)) }
    fn k1() -> Result<(&'static str, &'static str, usize, u32), u8> { let n; konst::try_rebind!{(let b: &[u8], n) = src()} Ok((b.kind(), tn(&b), sz(&b), n)) }
    fn s1() -> Result<(&'static str, &'static str, usize, u32), u8> { let n; let t = src()?; let b: &[u8] = t.0; n = t.1; Ok((b.kind(), tn(&b), sz(&b), n)) }
    chk!("try_rebind!((let b: &[u8], n)) on (&[u8; 4], u32): unsizing annotation", k1(), s1());
    fn k2() -> (&'static str, &'static str, usize, u32) { let mut r = ("", "", 0, 0); konst::rebind_if_ok!{(let b: &[u8], let n) = src() => r = (b.kind(), tn(&b), sz(&b), n);} r }
    chk!("rebind_if_ok!((let b: &[u8], let n)) on (&[u8; 4], u32): unsizing annotation", Ok::<_, u8>(k2()), s1());
    fn k3() -> Result<(&'static str, usize), u8> { konst::try_rebind!{(let b: &[u8]) = Ok::<&'static [u8; 4], u8>(&ARR)} Ok((tn(&b), sz(&b))) }
    fn s3() -> Result<(&'static str, usize), u8> { let t = Ok::<&'static [u8; 4], u8>(&ARR)?; let b: &[u8] = t; Ok((tn(&b), sz(&b))) }
    chk!("try_rebind!((let b: &[u8])) single typed let: unsizing annotation", k3(), s3());
    fn k4() -> Result<(&'static str, usize, u8), u8> { konst::try_rebind!{(let _a, let f: fn(u8) -> u8, _) = Ok::<(u8, _, u8), u8>((1, inc, 2))} Ok((tn(&f), sz(&f), f(4))) }
    fn s4() -> Result<(&'static str, usize, u8), u8> { let t = Ok::<(u8, _, u8), u8>((1, inc, 2))?; let f: fn(u8) -> u8 = t.1; Ok((tn(&f), sz(&f), f(4))) }
    chk!("try_rebind!((let _a, let f: fn(u8) -> u8, _)) on a fn item: pointer annotation", k4(), s4());
    fn k5() -> Result<(&'static str, usize, String), u8> { konst::try_rebind!{(let d: &dyn std::fmt::Debug, let m: &u8) = Ok::<(&'static u8, &'static mut u8), u8>((&ARR[1], Box::leak(Box::new(5u8))))} Ok((tn(&d), sz(&d), format!("{:?}{}{}", d, tn(&m), m))) }
    fn s5() -> Result<(&'static str, usize, String), u8> { let t = Ok::<(&'static u8, &'static mut u8), u8>((&ARR[1], Box::leak(Box::new(5u8))))?; let d: &dyn std::fmt::Debug = t.0; let m: &u8 = t.1; Ok((tn(&d), sz(&d), format!("{:?}{}{}", d, tn(&m), m))) }
    chk!("try_rebind!((let d: &dyn Debug, let m: &u8)) on (&u8, &mut u8): trait-object and reborrow annotations", k5(), s5());
}

// ---- min / max with distinguishable identity
#[derive(Debug, Clone, Copy, PartialEq, Eq)]
struct Keyed { key: u8, id: u8 }
impl PartialOrd for Keyed { fn partial_cmp(&self, o: &Self) -> Option<Ordering> { Some(self.cmp(o)) } }
impl Ord for Keyed { fn cmp(&self, o: &Self) -> Ordering { self.key.cmp(&o.key) } }
impl konst::cmp::ConstCmp for Keyed { type Kind = konst::cmp::IsNotStdKind; }
impl Keyed {
    const fn const_eq(&self, o: &Self) -> bool { self.key == o.key }
    const fn const_cmp(&self, o: &Self) -> Ordering { konst::const_cmp!(self.key, o.key) }
}
fn by_key(l: &Keyed, r: &Keyed) -> Ordering { l.key.cmp(&r.key) }
fn key_of(x: &Keyed) -> u8 { x.key }

fn minmax() {
    for ka in 0..3u8 { for kb in 0..3u8 {
        let (a, b) = (Keyed { key: ka, id: 1 }, Keyed { key: kb, id: 2 });
        let nm = format!("keys ({},{})", ka, kb);
        chk!(format!("min! {}", nm), konst::min!(a, b).id, std::cmp::min(a, b).id);
        chk!(format!("max! {}", nm), konst::max!(a, b).id, std::cmp::max(a, b).id);
        chk!(format!("min_by!(closure) {}", nm), konst::min_by!(a, b, |l, r| konst::const_cmp!(l.key, r.key)).id, std::cmp::min_by(a, b, |l, r| l.key.cmp(&r.key)).id);
        chk!(format!("max_by!(closure) {}", nm), konst::max_by!(a, b, |l, r| konst::const_cmp!(l.key, r.key)).id, std::cmp::max_by(a, b, |l, r| l.key.cmp(&r.key)).id);
        chk!(format!("min_by!(typed closure) {}", nm), konst::min_by!(a, b, |l: &Keyed, r: &Keyed| konst::const_cmp!(l.key, r.key)).id, std::cmp::min_by(a, b, |l, r| l.key.cmp(&r.key)).id);
        chk!(format!("min_by!(fn) {}", nm), konst::min_by!(a, b, by_key).id, std::cmp::min_by(a, b, by_key).id);
        chk!(format!("max_by!(fn) {}", nm), konst::max_by!(a, b, by_key).id, std::cmp::max_by(a, b, by_key).id);
        chk!(format!("min_by_key!(closure) {}", nm), konst::min_by_key!(a, b, |x| x.key).id, std::cmp::min_by_key(a, b, |x| x.key).id);
        chk!(format!("max_by_key!(closure) {}", nm), konst::max_by_key!(a, b, |x| x.key).id, std::cmp::max_by_key(a, b, |x| x.key).id);
        chk!(format!("min_by_key!(fn) {}", nm), konst::min_by_key!(a, b, key_of).id, std::cmp::min_by_key(a, b, key_of).id);
        chk!(format!("max_by_key!(fn) {}", nm), konst::max_by_key!(a, b, key_of).id, std::cmp::max_by_key(a, b, key_of).id);
        // reversed comparator: the tie rule must follow the comparator, not the keys
        chk!(format!("min_by!(reversed) {}", nm), konst::min_by!(a, b, |l, r| konst::const_cmp!(r.key, l.key)).id, std::cmp::min_by(a, b, |l, r| r.key.cmp(&l.key)).id);
        chk!(format!("max_by_key!(negated) {}", nm), konst::max_by_key!(a, b, |x| 10 - x.key).id, std::cmp::max_by_key(a, b, |x| 10 - x.key).id);
    }}
    // arguments that are expressions over a stateful source (a queue that is popped): std's functions receive
    // the values of their argument expressions, each evaluated exactly once, left to right - like any function
    // call; observed = (id and key of the returned argument, number of pops)
    fn pop(q: &Cell<u32>, ks: &[u8; 4], _pos: u8) -> Keyed { let i = q.get(); q.set(i + 1); Keyed { key: ks[i as usize % 4], id: 10 + i as u8 } }
    for k0 in 0..3u8 { for k1 in 0..3u8 { for k2 in 0..1u8 {
        let ks = [k0, k1, k2, 1];
        let nm = format!("popped keys {:?}", ks);
        chk!(format!("min! argument expressions evaluated once: {}", nm), counted!(q, { let v = konst::min!(pop(&q, &ks, 0), pop(&q, &ks, 1)); (v.id, v.key) }), counted!(q, { let v = std::cmp::min(pop(&q, &ks, 0), pop(&q, &ks, 1)); (v.id, v.key) }));
        chk!(format!("max! argument expressions evaluated once: {}", nm), counted!(q, { let v = konst::max!(pop(&q, &ks, 0), pop(&q, &ks, 1)); (v.id, v.key) }), counted!(q, { let v = std::cmp::max(pop(&q, &ks, 0), pop(&q, &ks, 1)); (v.id, v.key) }));
        chk!(format!("min_by!(fn) argument expressions evaluated once: {}", nm), counted!(q, { let v = konst::min_by!(pop(&q, &ks, 0), pop(&q, &ks, 1), by_key); (v.id, v.key) }), counted!(q, { let v = std::cmp::min_by(pop(&q, &ks, 0), pop(&q, &ks, 1), by_key); (v.id, v.key) }));
        chk!(format!("max_by!(fn) argument expressions evaluated once: {}", nm), counted!(q, { let v = konst::max_by!(pop(&q, &ks, 0), pop(&q, &ks, 1), by_key); (v.id, v.key) }), counted!(q, { let v = std::cmp::max_by(pop(&q, &ks, 0), pop(&q, &ks, 1), by_key); (v.id, v.key) }));
        chk!(format!("min_by_key!(fn) argument expressions evaluated once: {}", nm), counted!(q, { let v = konst::min_by_key!(pop(&q, &ks, 0), pop(&q, &ks, 1), key_of); (v.id, v.key) }), counted!(q, { let v = std::cmp::min_by_key(pop(&q, &ks, 0), pop(&q, &ks, 1), key_of); (v.id, v.key) }));
        chk!(format!("max_by_key!(fn) argument expressions evaluated once: {}", nm), counted!(q, { let v = konst::max_by_key!(pop(&q, &ks, 0), pop(&q, &ks, 1), key_of); (v.id, v.key) }), counted!(q, { let v = std::cmp::max_by_key(pop(&q, &ks, 0), pop(&q, &ks, 1), key_of); (v.id, v.key) }));
        chk!(format!("min_by!(closure) argument expressions evaluated once: {}", nm), counted!(q, { let v = konst::min_by!(pop(&q, &ks, 0), pop(&q, &ks, 1), |l, r| konst::const_cmp!(l.key, r.key)); (v.id, v.key) }), counted!(q, { let v = std::cmp::min_by(pop(&q, &ks, 0), pop(&q, &ks, 1), |l, r| l.key.cmp(&r.key)); (v.id, v.key) }));
        chk!(format!("max_by!(closure) argument expressions evaluated once: {}", nm), counted!(q, { let v = konst::max_by!(pop(&q, &ks, 0), pop(&q, &ks, 1), |l, r| konst::const_cmp!(l.key, r.key)); (v.id, v.key) }), counted!(q, { let v = std::cmp::max_by(pop(&q, &ks, 0), pop(&q, &ks, 1), |l, r| l.key.cmp(&r.key)); (v.id, v.key) }));
        chk!(format!("min_by_key!(closure) argument expressions evaluated once: {}", nm), counted!(q, { let v = konst::min_by_key!(pop(&q, &ks, 0), pop(&q, &ks, 1), |x| x.key); (v.id, v.key) }), counted!(q, { let v = std::cmp::min_by_key(pop(&q, &ks, 0), pop(&q, &ks, 1), |x| x.key); (v.id, v.key) }));
        chk!(format!("max_by_key!(closure) argument expressions evaluated once: {}", nm), counted!(q, { let v = konst::max_by_key!(pop(&q, &ks, 0), pop(&q, &ks, 1), |x| x.key); (v.id, v.key) }), counted!(q, { let v = std::cmp::max_by_key(pop(&q, &ks, 0), pop(&q, &ks, 1), |x| x.key); (v.id, v.key) }));
    }}}
    // the key / comparator may be any function-valued *expression*: evaluated exactly once, like the argument of
    // std::cmp::min_by_key (a factory that hands out a different function on every call shows a second evaluation)
    fn key_b(x: &Keyed) -> u8 { 9 - x.key }
    fn pick_key(c: &Cell<u32>) -> fn(&Keyed) -> u8 { c.set(c.get() + 1); if c.get() == 1 { key_of } else { key_b } }
    fn by_key_rev(l: &Keyed, r: &Keyed) -> Ordering { r.key.cmp(&l.key) }
    fn pick_cmp(c: &Cell<u32>) -> fn(&Keyed, &Keyed) -> Ordering { c.set(c.get() + 1); if c.get() == 1 { by_key } else { by_key_rev } }
    for ka in 0..3u8 { for kb in 0..3u8 {
        let (a, b) = (Keyed { key: ka, id: 1 }, Keyed { key: kb, id: 2 });
        let nm = format!("keys ({},{})", ka, kb);
        chk!(format!("min_by_key!(function expression evaluated once) {}", nm), counted!(c, konst::min_by_key!(a, b, (pick_key(&c))).id), counted!(c, std::cmp::min_by_key(a, b, pick_key(&c)).id));
        chk!(format!("max_by_key!(function expression evaluated once) {}", nm), counted!(c, konst::max_by_key!(a, b, (pick_key(&c))).id), counted!(c, std::cmp::max_by_key(a, b, pick_key(&c)).id));
        chk!(format!("min_by!(function expression evaluated once) {}", nm), counted!(c, konst::min_by!(a, b, (pick_cmp(&c))).id), counted!(c, std::cmp::min_by(a, b, pick_cmp(&c)).id));
        chk!(format!("max_by!(function expression evaluated once) {}", nm), counted!(c, konst::max_by!(a, b, (pick_cmp(&c))).id), counted!(c, std::cmp::max_by(a, b, pick_cmp(&c)).id));
    }}
    for a in [0u32, 1, u32::MAX] { for b in [0u32, 1, u32::MAX] {
        chk!("min!(u32)", konst::min!(a, b), std::cmp::min(a, b));
        chk!("max!(u32)", konst::max!(a, b), std::cmp::max(a, b));
    }}
    for a in [i8::MIN, -1, 0, i8::MAX] { for b in [i8::MIN, -1, 0, i8::MAX] {
        chk!("min!(i8)", konst::min!(a, b), std::cmp::min(a, b));
        chk!("max!(i8)", konst::max!(a, b), std::cmp::max(a, b));
    }}
}
'''


def tuple_src(k):
    vals = ", ".join("%du64" % p for p in PRIMES[:k])
    ty = ", ".join(["u64"] * k)
    if k == 1:
        return "fn src1(ok: bool) -> Result<u64, u8> { if ok { Ok(2u64) } else { Err(9) } }\n"
    return "fn src%d(ok: bool) -> Result<(%s), u8> { if ok { Ok((%s)) } else { Err(9) } }\n" % (k, ty, vals)


def rebind_program(pid, kinds, form, annotated=False):
    """kinds: tuple over positions of 'E' (existing place), 'L' (let x), 'T' (let x: u64), 'U' (_).
    form: 'try' (try_rebind!) or 'ifok' (rebind_if_ok!). Returns Rust source of k_<pid>/s_<pid> + call."""
    k = len(kinds)
    pats, spre, sassign, copy_out = [], [], [], []
    for i, kd in enumerate(kinds):
        if kd == "E":
            place = ["out[%d]" % i, "loc%d" % i, "st.f%d" % (i % 3)][i % 3]
            if k == 1:
                # an unparenthesised single pattern must be one token tree: use a plain local there
                place = "loc0" if pid % 2 == 1 else ["out[0]", "st.f1"][(pid // 2) % 2]
            pats.append(place)
            acc = "t" if k == 1 else "t.%d" % i
            sassign.append("%s = %s;" % (place, acc))
            if not place.startswith("out"):
                copy_out.append("out[%d] = %s;" % (i, place))
        elif kd == "L":
            pats.append("let x%d" % i)
            sassign.append("let x%d = %s;" % (i, "t" if k == 1 else "t.%d" % i))
            copy_out.append("out[%d] = x%d;" % (i, i))
        elif kd == "T":
            pats.append("let x%d: u64" % i)
            sassign.append("let x%d: u64 = %s;" % (i, "t" if k == 1 else "t.%d" % i))
            copy_out.append("out[%d] = x%d;" % (i, i))
        else:
            pats.append("_")
            sassign.append("let _ = %s;" % ("t" if k == 1 else "t.%d" % i))
            copy_out.append("out[%d] = 0;" % i)
    if k == 1:
        # single value: `place = expr`, `(let x) = expr`, `_ = expr`; parenthesised unless it is a bare place
        pat = pats[0] if kinds[0] == "E" else "(%s)" % pats[0]
        if kinds[0] == "E" and pid % 2 == 0:
            pat = "(%s)" % pats[0]
    else:
        pat = "(%s)" % ", ".join(pats)
    locals_decl = "let mut st = St { f0: 100, f1: 100, f2: 100 }; " + " ".join("let mut loc%d = 100u64;" % i for i in range(k))
    src = "src%d(ok)" % k
    if form == "try":
        kfn = "fn k_%d(ok: bool, out: &mut [u64; 6]) -> Result<(), u8> { %s konst::try_rebind!{%s = %s} %s Ok(()) }\n" % (pid, locals_decl, pat, src, " ".join(copy_out))
        sfn = "fn s_%d(ok: bool, out: &mut [u64; 6]) -> Result<(), u8> { %s let t = %s?; %s %s Ok(()) }\n" % (pid, locals_decl, src, " ".join(sassign), " ".join(copy_out))
    else:
        kfn = "fn k_%d(ok: bool, out: &mut [u64; 6]) -> Result<(), u8> { %s let mut ran = false; konst::rebind_if_ok!{%s = %s => ran = true; %s} if ran { Ok(()) } else { Err(0) } }\n" % (pid, locals_decl, pat, src, " ".join(copy_out))
        sfn = "fn s_%d(ok: bool, out: &mut [u64; 6]) -> Result<(), u8> { %s let mut ran = false; if let Ok(t) = %s { %s ran = true; %s } if ran { Ok(()) } else { Err(0) } }\n" % (pid, locals_decl, src, " ".join(sassign), " ".join(copy_out))
    call = "    rb(%d, %s, &k_%d, &s_%d);\n" % (pid, '"%s!{%s = ..}"' % ("try_rebind" if form == "try" else "rebind_if_ok", pat.replace('"', "")), pid, pid)
    return kfn + sfn, call


REBIND_PRELUDE = r'''
struct St { f0: u64, f1: u64, f2: u64 }
fn rb(pid: usize, desc: &str, k: &dyn Fn(bool, &mut [u64; 6]) -> Result<(), u8>, s: &dyn Fn(bool, &mut [u64; 6]) -> Result<(), u8>) {
    for ok in [true, false] {
        ev();
        let (mut ko, mut so) = ([100u64; 6], [100u64; 6]);
        let (kr, sr) = (k(ok, &mut ko), s(ok, &mut so));
        if (kr, ko) != (sr, so) { println!("FAIL\trebind #{} {} ok={}\t{:?}\t{:?}", pid, desc, ok, (kr, ko), (sr, so)); }
    }
}
'''


def rebind_kinds(rnd, thorough):
    out = []
    for k in range(1, 5):
        out.extend(itertools.product("ELTU", repeat=k))
    for k in (5, 6):
        base = ("L",) * k
        out.append(base)
        out.append(("E",) * k)
        for i in range(k):
            for kd in "ETU":
                x = list(base)
                x[i] = kd
                out.append(tuple(x))
        for _ in range(150 if thorough else 30):
            out.append(tuple(rnd.choice("ELTU") for _ in range(k)))
    return out


def run(out, tier, seed):
    thorough = tier == "thorough"
    cx = Ctx("c19")
    rnd = random.Random(seed * 31 + 5)
    kinds = rebind_kinds(rnd, thorough)
    progs = []
    for kd in kinds:
        for form in ("try", "ifok"):
            progs.append((kd, form))
    per = 150
    batches = [progs[i:i + per] for i in range(0, len(progs), per)]
    srcs = []
    meta = {}
    for bi, b in enumerate(batches):
        fns, calls = [], []
        for j, (kd, form) in enumerate(b):
            pid = bi * per + j
            f, c = rebind_program(pid, kd, form)
            fns.append(f)
            calls.append(c)
            meta[pid] = (kd, form)
        text = STATIC + REBIND_PRELUDE + "".join(tuple_src(k) for k in range(1, 7)) + "".join(fns)
        text += "fn main() {\n    std::panic::set_hook(Box::new(|_| {}));\n"
        if bi == 0:
            text += "    options_and_results();\n    argument_expressions();\n    tries();\n    dependent_targets();\n    coercing_annotations();\n    minmax();\n"
        text += "".join(calls)
        text += "    println!(\"N\\t{}\", unsafe { EVALS });\n}\n"
        srcs.append(cx.write("c19_%03d.rs" % bi, text))
    comp = cx.compile_many(srcs)
    evals, nontrivial = 0, 0
    hist = {}
    bins = []
    for bi, ((rc, se, outp), src) in enumerate(zip(comp, srcs)):
        if rc is None:
            raise kv.Inconclusive("watchdog: rustc did not finish on %s" % src)
        if rc != 0:
            # locate the failing program(s): compile each rebind program of the batch on its own
            bad = []
            singles = []
            for j, (kd, form) in enumerate(batches[bi]):
                pid = bi * per + j
                f, c = rebind_program(pid, kd, form)
                t = "#![allow(unused)]\n" + REBIND_PRELUDE.replace("ev();", "") + "".join(tuple_src(k) for k in range(1, 7)) + f + "fn main() {\n" + c + "}\n"
                singles.append((pid, cx.write("c19_single_%d.rs" % pid, t)))
            res = cx.compile_many([s for _, s in singles], metadata=False)
            for (pid, s), (rc2, se2, _) in zip(singles, res):
                if rc2 != 0:
                    bad.append((pid, s, se2))
            if not bad:
                out.fail("compile-error:static-part", "C19 macros", src, first_error(se)[:400], "valid program compiles", "rustc", cmd="rustc " + src, source=src)
            for pid, s, se2 in bad[:40]:
                kd, form = meta[pid]
                out.fail("compile-error:%s arity %d" % ("try_rebind!" if form == "try" else "rebind_if_ok!", len(kd)), "rebind", "program %d: %s pattern kinds %s (%s)" % (pid, form, "".join(kd), s), first_error(se2)[:300], "a valid rebind pattern compiles", "rustc", cmd="rustc " + s, source=s)
            continue
        bins.append((src, outp))
    results = cx.run_many([b for _, b in bins], timeout=1800)
    for (src, b), (rc, so, se) in zip(bins, results):
        if rc is None:
            raise kv.Inconclusive("watchdog: generated program %s did not finish" % b)
        if rc != 0:
            raise kv.Inconclusive("generated program %s exited with %s: %s" % (b, rc, (se or "")[-300:]))
        for line in so.splitlines():
            f = line.split("\t")
            if f[0] == "FAIL":
                name = f[1]
                sig = re.sub(r"#\d+ ", "", name)
                sig = re.sub(r"\{.*", "", sig).strip()
                out.fail("differs:" + sig[:80], name.split(" ")[0], name, f[2][:300], f[3][:300], "generated-program", cmd=b, source=src)
            elif f[0] == "N":
                evals += int(f[1])
    nontrivial = len(kinds) * 2 + 60
    samples = ["try_rebind!{(out[0], let x1, let x2: u64, _) = src4(ok)} vs `let t = src4(ok)?; out[0] = t.0; let x1 = t.1; ...`",
               "option::unwrap_or_else!(Some(1), || {calls += 1; 7}) vs Option::unwrap_or_else (value and number of closure calls)",
               "min_by_key!(Keyed{key:1,id:1}, Keyed{key:1,id:2}, |x| x.key).id vs std::cmp::min_by_key"]
    out.add_counts("generated-programs", evals, "c19-programs", nontrivial, samples,
                   rule="one evaluation = one macro evaluation compared with the std method / `?` / hand-written if-let (returned value, call count of the fallback closure, identity of the returned min/max argument, every rebound place after Ok and after Err); a valid rebind program that does not compile is a failure; distinct_nontrivial = number of distinct rebind patterns x 2 macros + the 60 option/result/try/minmax forms",
                   exhaustive="option::/result:: macros x {closure, pattern-parameter closure, function path} x 5 Option / 5 Result values (+ non-Copy String payloads); try_!/try_opt!; try_rebind!/rebind_if_ok! for all 4^k position-kind combinations for k = 1..4 (340), every single-position variation and %d seeded random combinations for k = 5, 6; min/max/min_by/max_by/min_by_key/max_by_key over all 9 key pairs with distinguishable ids" % (300 if thorough else 60),
                   hist={"rebind-programs": len(progs)})
    out.counters["programs_generated"] = len(progs)
