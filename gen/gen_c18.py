"""C18 – parser_method! behaves like the equivalent chain of Parser method calls; the bytes matched
for a literal are exactly the bytes rustc gives that literal.

Each generated program is a pair: the macro invocation, and a reference written with plain
`Parser` method calls over the *same literal tokens in expression position* (so rustc itself decodes
the reference literals). Inputs: all strings up to a length bound over the characters of the
program's literals (+ one foreign character), plus concatenations of the literals themselves.
"""
import random
import re

from gcommon import Ctx, first_error
import kv

NL = "\n"
# (source text of a Rust expression that is a string literal / concat! of literals, tag)
LITS = [
    ('"a"', "plain"), ('"b"', "plain"), ('"ab"', "plain"), ('"ba"', "plain"), ('"aab"', "plain"), ('"aa"', "plain"), ('""', "empty"),
    ('"\\n"', "esc-n"), ('"a\\tb"', "esc-t"), ('"\\\\"', "esc-backslash"), ('"\\0"', "esc-0"), ('"\\\'"', "esc-squote"), ('"\\""', "esc-dquote"),
    ('"\\x41"', "esc-x"), ('"\\x00a"', "esc-x00"), ('"\\x7F"', "esc-x7f"), ('"\\r\\n"', "esc-rn"), ('"a\\\\b"', "esc-backslash"),
    ('"\\u{61}"', "esc-u1"), ('"\\u{F1}"', "esc-u2"), ('"\\u{500B}"', "esc-u3"), ('"\\u{1F642}"', "esc-u4"), ('"\\u{00000A}"', "esc-u6digits"), ('"\\u{f1}a"', "esc-u-lower"), ('"\\u{1_F642}"', "esc-u-underscore"), ('"\\u{0_0_6_1_}b"', "esc-u-underscore"),
    ('"a\\' + NL + '   b"', "cont-spaces"), ('"a\\' + NL + '\t' + NL + '  b"', "cont-tab-newline"), ('"a\\' + NL + '\u00a0b"', "cont-nbsp-kept"),
    ('"a\\' + NL + '\u3000b"', "cont-u3000-kept"), ('"b\\' + NL + '"', "cont-then-end"), ('"a\\' + NL + NL + NL + 'b"', "cont-blank-lines"),
    ('r"a\\n"', "raw0"), ('r#"a"b"#', "raw1"), ('r##"a"#b"##', "raw2"), ('r""', "raw-empty"), ('r"\\"', "raw-backslash"),
    ('r#""a""#', "raw-edge-quote"), ('r#"b""#', "raw-edge-quote"), ('r#""b"#', "raw-edge-quote"), ('r##""#x"##', "raw-edge-quote"), ('r##"x#""##', "raw-edge-quote"), ('r#"""#', "raw-edge-quote"),
    ('r#""""#', "raw-edge-quote"), ('r###"a"##b"###', "raw3"), ('r#"#"#', "raw-hash-content"), ('r##"#a#"##', "raw-hash-content"), ('concat!(r#"""#, "q")', "concat-raw-edge-quote"), ('r"ñ\\u{61}"', "raw-no-escape"),
    ('"ñ"', "multibyte"), ('"個🙂"', "multibyte"), ('"añ"', "multibyte"), ('"ña"', "multibyte"), ('"\u00a0"', "multibyte"),
    ('concat!("a", "b")', "concat"), ('concat!("a", r#"\\"#, "\\n")', "concat"), ('concat!(concat!("a", "b"), "a")', "concat-nested"), ('concat!("", "ñ")', "concat"),
    ('concat!("a\\' + NL + '  ", "b")', "concat-cont"),
]
METHODS = ["strip_prefix", "strip_suffix", "find_skip", "rfind_skip", "trim_start_matches", "trim_end_matches"]

PRELUDE = r'''
#![allow(unused, clippy::all)]
use konst::Parser;

static mut EVALS: u64 = 0;
static mut MATCHED: u64 = 0;

fn strings_upto(alpha: &[String], maxlen: usize) -> Vec<String> {
    let mut out = vec![String::new()];
    let mut prev = vec![String::new()];
    for _ in 0..maxlen {
        let mut cur = vec![];
        for p in &prev { for a in alpha { let mut s = p.clone(); s.push_str(a); cur.push(s); } }
        out.extend(cur.iter().cloned());
        prev = cur;
    }
    out
}
fn inputs(branches: &[&[&str]]) -> Vec<String> {
    let mut chars: Vec<String> = vec![];
    let mut units: Vec<String> = vec!["z".to_string()];
    for alts in branches { for a in alts.iter() {
        if !a.is_empty() && !units.contains(&a.to_string()) { units.push(a.to_string()); }
        for c in a.chars() { let s = c.to_string(); if !chars.contains(&s) && chars.len() < 3 { chars.push(s); } }
    }}
    chars.push("z".to_string());
    // foreign chars of 3 and 4 bytes: a scan loop that steps over whole chars must step by the right width
    chars.push("\u{20ac}".to_string());
    if chars.len() < 6 { chars.push("\u{1f600}".to_string()); }
    let mut v = strings_upto(&chars, 4);
    units.truncate(5);
    v.extend(strings_upto(&units, 3));
    v.sort(); v.dedup();
    v
}
fn ref_strip<'a>(p: Parser<'a>, branches: &[&[&str]], suffix: bool) -> (usize, Parser<'a>) {
    for (bi, alts) in branches.iter().enumerate() { for a in alts.iter() {
        let r = if suffix { p.strip_suffix(*a) } else { p.strip_prefix(*a) };
        if let Ok(np) = r { return (bi, np); }
    }}
    (branches.len(), p)
}
fn ref_find<'a>(p: Parser<'a>, branches: &[&[&str]], reverse: bool) -> (usize, Parser<'a>) {
    let rem = p.remainder();
    let mut best: Option<(usize, usize, &str)> = None; // (position key, branch, alt)
    for (bi, alts) in branches.iter().enumerate() { for a in alts.iter() {
        let key = if reverse { rem.rfind(*a).map(|pos| pos + a.len()) } else { rem.find(*a) };
        if let Some(k) = key {
            let better = match best { None => true, Some((bk, _, _)) => if reverse { k > bk } else { k < bk } };
            if better { best = Some((k, bi, a)); }
        }
    }}
    match best {
        None => (branches.len(), p),
        Some((_, bi, a)) => (bi, if reverse { p.rfind_skip(a).unwrap() } else { p.find_skip(a).unwrap() }),
    }
}
fn ref_trim<'a>(mut p: Parser<'a>, alts: &[&str], end: bool) -> (usize, Parser<'a>) {
    'outer: loop {
        for a in alts.iter() {
            let r = if end { p.strip_suffix(*a) } else { p.strip_prefix(*a) };
            if let Ok(np) = r {
                if a.is_empty() { break 'outer; }
                p = np;
                continue 'outer;
            }
        }
        break;
    }
    // like Parser::trim_start_matches / trim_end_matches, the trim forms always leave the parser's direction
    // at their own end, whether or not anything was removed (position-neutral skip)
    (0, if end { p.skip_back(0) } else { p.skip(0) })
}
fn run(id: usize, branches: &[&[&str]], k: &dyn for<'a> Fn(Parser<'a>) -> (usize, Parser<'a>), r: &dyn for<'a> Fn(Parser<'a>) -> (usize, Parser<'a>)) {
    let mut evals = 0u64; let mut matched = 0u64; let mut first: Option<String> = None; let mut bad = 0u64;
    for s in inputs(branches) {
        for (base, from_end, exhausted) in [(0usize, false, false), (5, false, false), (0, true, false), (5, true, false), (0, false, true), (5, true, true)] {
            let p = if base == 0 { Parser::new(&s) } else { Parser::with_start_offset(&s, base) };
            // the parser's last mutation came from the other end: position-neutral, direction FromEnd
            let p = if from_end { p.skip_back(0) } else { p };
            // a parser whose split protocol has handed out its last piece (remainder "", must stay exhausted)
            let p = if exhausted { if from_end { p.rsplit('\u{1}').unwrap().1 } else { p.split('\u{1}').unwrap().1 } } else { p };
            let (kb, kp) = k(p);
            let (rb, rp) = r(p);
            evals += 1;
            let default_branch = rb == branches.len();
            if !default_branch || rp.remainder().len() != s.len() { matched += 1; }
            let same = kb == rb && kp.remainder() == rp.remainder() && kp.start_offset() == rp.start_offset() && kp.end_offset() == rp.end_offset()
                && kp.parse_direction() == rp.parse_direction() && kp == rp
                && kp.split('\u{2}').is_ok() == rp.split('\u{2}').is_ok() && kp.rsplit('\u{2}').is_ok() == rp.rsplit('\u{2}').is_ok()
                && (!default_branch || kp == p);
            if !same {
                bad += 1;
                if first.is_none() {
                    first = Some(format!("input={:?} base={} from_end={} macro=(branch {}, rem {:?}, {}..{}, {:?}) reference=(branch {}, rem {:?}, {}..{}, {:?}) literals={:?}", s, base, from_end, kb, kp.remainder(), kp.start_offset(), kp.end_offset(), kp.parse_direction(), rb, rp.remainder(), rp.start_offset(), rp.end_offset(), rp.parse_direction(), branches));
                }
            }
        }
    }
    println!("P\t{}\t{}\t{}\t{}\t{}", id, evals, matched, bad, first.unwrap_or_default().replace('\t', "\\t").replace('\n', "\\n").replace('\r', "\\r"));
}
'''


class Prog:
    def __init__(self, method, branches, style=0):
        # branches: list of list of (src, tag); style: 0 = `pat => expr,`  1 = `pat => { expr }` (no comma)
        # 2 = `pat => { expr },`  3 = mixed
        self.method, self.branches, self.style = method, branches, style

    def tags(self):
        return sorted({t for b in self.branches for (_, t) in b})

    def render(self, pid):
        m = self.method
        trim = m.startswith("trim")
        if trim:
            pats = " | ".join(src for (src, _) in self.branches[0])
            kfn = "fn k_%d<'a>(mut p: Parser<'a>) -> (usize, Parser<'a>) { konst::parser_method!{p, %s; %s}; (0, p) }\n" % (pid, m, pats)
        else:
            arms = []
            for bi, b in enumerate(self.branches + [None]):
                pat = "_" if b is None else " | ".join(src for (src, _) in b)
                st = self.style if self.style != 3 else (bi + pid) % 3
                if st == 0:
                    arms.append("%s => %d," % (pat, bi))
                elif st == 1:
                    arms.append("%s => { %d }" % (pat, bi))
                else:
                    arms.append("%s => { %d }," % (pat, bi))
            kfn = "fn k_%d<'a>(mut p: Parser<'a>) -> (usize, Parser<'a>) { let b: usize = konst::parser_method!{p, %s; %s}; (b, p) }\n" % (pid, m, " ".join(arms))
        consts = "const A_%d: &[&[&str]] = &[%s];\n" % (pid, ", ".join("&[%s]" % ", ".join(src for (src, _) in b) for b in self.branches))
        if m in ("strip_prefix", "strip_suffix"):
            rfn = "ref_strip(p, A_%d, %s)" % (pid, "true" if m == "strip_suffix" else "false")
        elif m in ("find_skip", "rfind_skip"):
            rfn = "ref_find(p, A_%d, %s)" % (pid, "true" if m == "rfind_skip" else "false")
        else:
            rfn = "ref_trim(p, A_%d[0], %s)" % (pid, "true" if m == "trim_end_matches" else "false")
        call = "    run(%d, A_%d, &k_%d, &|p| %s);\n" % (pid, pid, pid, rfn)
        return consts + kfn, call


def gen_programs(rnd, n):
    progs = []
    # every literal alone with every method (each decoding path x each method)
    for lit in LITS:
        for m in METHODS:
            progs.append(Prog(m, [[lit]]))
    # prefix-of-each-other alternatives: first listed must win
    for m in METHODS:
        for pair in ([LITS[0], LITS[2]], [LITS[2], LITS[0]], [LITS[4], LITS[5], LITS[0]], [LITS[6], LITS[0]], [LITS[0], LITS[6]], [LITS[35], LITS[37]], [LITS[37], LITS[35]]):
            progs.append(Prog(m, [pair]))
            if not m.startswith("trim"):
                # one literal per branch, in every branch syntax: the first *listed* branch must win
                for st in (0, 1, 2, 3):
                    progs.append(Prog(m, [[x] for x in pair], st))
    while len(progs) < n:
        m = rnd.choice(METHODS)
        if m.startswith("trim"):
            b = [[rnd.choice(LITS) for _ in range(rnd.randint(1, 4))]]
        else:
            b = [[rnd.choice(LITS) for _ in range(rnd.randint(1, 3))] for _ in range(rnd.randint(1, 3))]
        progs.append(Prog(m, b, rnd.randint(0, 3)))
    return progs


def run(out, tier, seed):
    thorough = tier == "thorough"
    cx = Ctx("c18")
    rnd = random.Random(seed * 101 + 3)
    progs = gen_programs(rnd, 3000 if thorough else 520)
    per = 60
    batches = [list(enumerate(progs))[i:i + per] for i in range(0, len(progs), per)]
    srcs = []
    for bi, b in enumerate(batches):
        fns, calls = [], []
        for pid, p in b:
            f, c = p.render(pid)
            fns.append(f)
            calls.append(c)
        srcs.append(cx.write("c18_%03d.rs" % bi, PRELUDE + "".join(fns) + "fn main() {\n" + "".join(calls) + "}\n"))
    comp = cx.compile_many(srcs)
    bins = []
    for bi, ((rc, se, outp), src) in enumerate(zip(comp, srcs)):
        if rc is None:
            raise kv.Inconclusive("watchdog: rustc did not finish on %s" % src)
        if rc != 0:
            # find the program(s) that do not compile
            singles = []
            for pid, p in batches[bi]:
                f, c = p.render(pid)
                singles.append((pid, p, cx.write("c18_single_%d.rs" % pid, PRELUDE + f + "fn main() {\n" + c + "}\n")))
            res = cx.compile_many([s for _, _, s in singles], metadata=False)
            n = 0
            for (pid, p, s), (rc2, se2, _) in zip(singles, res):
                if rc2 != 0 and n < 20:
                    n += 1
                    out.fail("compile-error:%s:%s" % (p.method, "+".join(p.tags())), "parser_method!", "program %d (%s)" % (pid, s), first_error(se2)[:300], "a valid parser_method! invocation compiles", "rustc", cmd="rustc " + s, source=s)
            if n == 0:
                out.fail("compile-error:batch", "parser_method!", src, first_error(se)[:300], "valid programs compile", "rustc", cmd="rustc " + src, source=src)
            continue
        bins.append((src, outp))
    results = cx.run_many([b for _, b in bins], timeout=1800)
    evals = matched_programs = 0
    hist = {}
    samples = []
    for (src, b), (rc, so, se) in zip(bins, results):
        if rc is None:
            raise kv.Inconclusive("watchdog: generated program %s did not finish" % b)
        if rc != 0:
            raise kv.Inconclusive("generated program %s exited with %s: %s" % (b, rc, (se or "")[-300:]))
        for line in so.splitlines():
            f = line.split("\t")
            if f[0] != "P":
                continue
            pid, ev, matched, bad = int(f[1]), int(f[2]), int(f[3]), int(f[4])
            p = progs[pid]
            evals += ev
            hist["method:" + p.method] = hist.get("method:" + p.method, 0) + ev
            for t in p.tags():
                hist["literal:" + t] = hist.get("literal:" + t, 0) + 1
            if matched > 0:
                matched_programs += 1
            if len(samples) < 5 and pid % 53 == 0:
                samples.append("parser_method!{p, %s; %s} on all inputs over the literals' characters (%d inputs x 2 start offsets, %d matched a literal)" % (p.method, " , ".join(" | ".join(s for s, _ in b) for b in p.branches).replace("\n", "\\n"), ev // 2, matched))
            if bad:
                out.fail("differs:%s:%s" % (p.method, "+".join(p.tags())), "parser_method!", "program %d: %s; %s | first: %s" % (pid, p.method, " , ".join(" | ".join(s for s, _ in b) for b in p.branches).replace("\n", "\\n"), f[5][:500]), "%d of %d evaluations differ" % (bad, ev), "the equivalent chain of Parser method calls on the rustc-decoded literals", "generated-program", cmd=b, source=src)
    out.add_counts("generated-programs", evals, "c18-programs", matched_programs, samples,
                   rule="one evaluation = one parser_method! invocation on one input/start-offset compared (branch taken, remainder, start_offset, end_offset, parse_direction, Parser equality; default branch: parser unchanged) with the reference chain of Parser::strip_prefix/strip_suffix/find_skip/rfind_skip calls over the same literal tokens in expression position; distinct_nontrivial = number of distinct generated programs in which at least one input matched a literal",
                   exhaustive="every literal form (plain, each escape kind, \\u{..} of 1-6 digits and all UTF-8 lengths, line continuations followed by spaces/tab/newlines/NBSP/U+3000/end, raw strings with 0-2 hashes, multi-byte text, empty, concat! incl. nested) alone x 6 methods, prefix-of-each-other alternative sets, + seeded random programs up to %d (1-3 branches x 1-3 alternatives); inputs: all strings of <= 4 chars over <= 3 literal characters + 'z' and <= 3 concatenated literals, from Parser::new and with_start_offset(_, 5), each also after a position-neutral skip_back(0) (direction FromEnd) and after an exhausted split / rsplit (a following split must fail on both sides alike)" % len(progs),
                   hist=hist)
    out.counters["programs_generated"] = len(progs)
