"""Shared helpers for the generated-program engines (DESIGN.md §2/E3-E5)."""
import os
import re
import shutil
import sys
from concurrent.futures import ThreadPoolExecutor

sys.path.insert(0, os.path.join(os.path.dirname(os.path.dirname(os.path.abspath(__file__))), "lib"))
import kv  # noqa: E402


class Ctx:
    def __init__(self, name):
        self.dir = os.path.join(kv.WORK, name)
        shutil.rmtree(self.dir, ignore_errors=True)
        os.makedirs(self.dir, exist_ok=True)
        self.konst, self.deps = kv.konst_rlibs("dbg")

    def path(self, fn):
        return os.path.join(self.dir, fn)

    def write(self, fn, text):
        p = self.path(fn)
        with open(p, "w") as f:
            f.write(text)
        return p

    def compile(self, src, out=None, metadata=False, nightly=False, extra=None, timeout=1800):
        out = out or (src[:-3] + (".rmeta" if metadata else ".bin"))
        rc, so, se = kv.rustc_compile(src, out, self.konst, self.deps, emit_metadata=metadata, nightly=nightly, extra=extra, timeout=timeout)
        return rc, se, out

    def compile_many(self, srcs, metadata=False, nightly=False, extra=None, workers=None, timeout=1800):
        """srcs: list of source paths -> list of (rc, stderr, out_path) in the same order"""
        with ThreadPoolExecutor(max_workers=workers or kv.NCPU) as ex:
            return list(ex.map(lambda s: self.compile(s, metadata=metadata, nightly=nightly, extra=extra, timeout=timeout), srcs))

    def run(self, binp, args=(), timeout=1800, env=None):
        return kv.sh([binp] + list(args), timeout=timeout, env=env)

    def run_many(self, bins, args=(), timeout=1800, workers=None):
        with ThreadPoolExecutor(max_workers=workers or kv.NCPU) as ex:
            return list(ex.map(lambda b: self.run(b, args, timeout), bins))


WRAP_TOML = """[package]
name = "kv_gen_wrap_%s"
version = "0.0.0"
edition = "2021"
publish = false

[workspace]

[dependencies.konst]
path = "/repo/konst"
default-features = false
features = ["cmp", "iter", "parsing_proc", "alloc", "rust_latest_stable"]
"""


def miri_run_program(cx, src, name, timeout=3600, ignore_leaks=False):
    """Run one generated program file under Miri through a throw-away cargo wrapper crate whose
    src/main.rs is a copy of the generated file. Returns (rc, stdout, stderr)."""
    d = cx.path("miri_" + name)
    os.makedirs(os.path.join(d, "src"), exist_ok=True)
    with open(os.path.join(d, "Cargo.toml"), "w") as f:
        f.write(WRAP_TOML % re.sub(r"[^A-Za-z0-9_]", "_", name))
    shutil.copy("/repo/Cargo.lock", os.path.join(d, "Cargo.lock"))
    shutil.copy(src, os.path.join(d, "src", "main.rs"))
    flags = "-Zmiri-disable-isolation" + (" -Zmiri-ignore-leaks" if ignore_leaks else "")
    return kv.sh(["cargo", "+nightly", "miri", "run", "--offline", "-q", "--manifest-path", os.path.join(d, "Cargo.toml")], timeout=timeout,
                 env={"MIRIFLAGS": flags, "CARGO_TARGET_DIR": os.path.join(kv.TARGET, "miri-gen")})


def rs_str(s):
    """Rust string literal for arbitrary text"""
    out = ['"']
    for ch in s:
        o = ord(ch)
        if ch == '"':
            out.append('\\"')
        elif ch == "\\":
            out.append("\\\\")
        elif ch == "\n":
            out.append("\\n")
        elif ch == "\r":
            out.append("\\r")
        elif ch == "\t":
            out.append("\\t")
        elif o < 0x20 or o == 0x7F:
            out.append("\\x%02x" % o)
        elif o > 0x7E:
            out.append("\\u{%x}" % o)
        else:
            out.append(ch)
    out.append('"')
    return "".join(out)


def first_error(stderr, n=3):
    lines = [l for l in (stderr or "").splitlines() if l.startswith("error")]
    return " | ".join(lines[:n]) if lines else (stderr or "")[-300:].replace("\n", " | ")
