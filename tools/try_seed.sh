#!/bin/bash
# dev helper: apply a seeded patch to /repo, run a registered check, undo the patch
S=$1; P=$2; shift 2
cd /repo && git apply /verif/seeded/$S/patch.diff || exit 2
cd /verif && KV_EVIDENCE_DIR=/verif/work/seed-evidence KV_REPLAY_DIR=/verif/work/seed-replay ./check $P "$@" > /tmp/try_$S_$P.out 2>&1; rc=$?
git -C /repo checkout -- .
echo "== seed $S check $P exit=$rc"; grep -E "^(VIOLATION|INCONCLUSIVE|  signature)" /tmp/try_$S_$P.out | cut -c1-330 | head -6
