#!/bin/bash
# dev tool: run seeded changes against the check of the property each breaks and record the verdicts.
# usage: seed_matrix.sh <tier> <out.tsv> [seed-id ...]   (default: all seeds). /repo is restored after every run.
cd /verif
TIER=${1:-quick}; OUT=${2:-/verif/seeded/RESULTS.tsv}; shift 2
SEEDS="$@"; [ -z "$SEEDS" ] && SEEDS=$(ls seeded | grep '^C')
printf "seed\tproperty\tcheck_exit\tfirst_signature\n" > $OUT
for S in $SEEDS; do
  P=${S%%-*}
  git -C /repo checkout -q -- . ; git -C /repo apply /verif/seeded/$S/patch.diff || { printf "%s\t%s\tPATCH-DOES-NOT-APPLY\t\n" $S $P >> $OUT; continue; }
  KV_EVIDENCE_DIR=/verif/work/seed-evidence KV_REPLAY_DIR=/verif/work/seed-replay ./check $P --tier $TIER > work/seed_$S.out 2>&1; rc=$?
  git -C /repo checkout -q -- .
  sig=$(grep -a -m1 "^  signature=" work/seed_$S.out | sed 's/^  signature=//' | cut -c1-160)
  printf "%s\t%s\t%s\t%s\n" $S $P $rc "$sig" >> $OUT
done
cat $OUT
