#!/bin/bash
# usage: confirm_seed.sh <worktree> <seed-name>
# Confirms a seeded change produced in a scratch worktree (tests still pass with it, demo fails with
# it and passes without it), then stores it as /verif/seeded/<seed-name>/{patch.diff,demo/,confirm.log}.
set -u
WT=$1; NAME=$2; DEST=/verif/seeded/$NAME
export CARGO_NET_OFFLINE=true
cd "$WT" || exit 2
rm -f change.diff
git diff > /tmp/seed_$NAME.diff
[ -s /tmp/seed_$NAME.diff ] || { echo "no diff in $WT"; exit 2; }
mkdir -p "$DEST"; cp /tmp/seed_$NAME.diff "$DEST/patch.diff"
rm -rf "$DEST/demo"; mkdir -p "$DEST/demo"; (cd demo && tar cf - --exclude=target .) | (cd "$DEST/demo" && tar xf -)
LOG=$DEST/confirm.log; : > $LOG
rundemo() { if [ -f demo/run.sh ]; then (cd demo && bash run.sh); else (cd demo && cargo run --offline -q); fi; }
echo "== tests with change" | tee -a $LOG
cargo nextest run --workspace --no-fail-fast --offline 2>&1 | grep -E "Summary|FAIL \[" | sort -u | tee -a $LOG
echo "== demo with change (must fail)" | tee -a $LOG
rundemo >> $LOG 2>&1; echo "exit=$?" | tee -a $LOG
git checkout -q -- .
echo "== demo without change (must pass)" | tee -a $LOG
rundemo >> $LOG 2>&1; echo "exit=$?" | tee -a $LOG
git apply /tmp/seed_$NAME.diff
rm -rf demo/target /tmp/seed_$NAME.diff
