#!/bin/bash
# dev helper: apply a seeded patch to /repo, run one harness sub-command (dev build), undo the patch
S=$1; SUB=$2; TIER=${3:-quick}
cd /repo && git apply /verif/seeded/$S/patch.diff || exit 2
cd /verif/harness && CARGO_NET_OFFLINE=true CARGO_TARGET_DIR=/verif/target/h cargo build --offline 2>&1 | grep -E "^error" -A 10
/verif/target/h/debug/kv_harness $SUB --tier $TIER --out /tmp/try_$S.json 2>&1 | tail -3
git -C /repo checkout -- .
python3 - <<PY
import json
d=json.load(open('/tmp/try_$S.json'))
print('$S','$SUB','fails',d['fail_count'],d['fail_sigs'])
for f in d['failures'][:2]: print('   ',f)
PY
