//! C12 – integer / bool parsing accepts std's language and returns the same value.
use crate::common::*;
use konst::parsing::ParseDirection;
use konst::Parser;

/// reference for prefix parsing, written from the statement
fn ref_prefix<T: std::str::FromStr>(s: &str, signed: bool) -> Option<(T, &str)> {
    let b = s.as_bytes();
    let mut i = 0;
    if signed && b.first() == Some(&b'-') {
        i = 1;
    }
    let ds = i;
    while i < b.len() && b[i].is_ascii_digit() {
        i += 1;
    }
    if i == ds {
        return None;
    }
    s[..i].parse::<T>().ok().map(|v| (v, &s[i..]))
}

macro_rules! int_checks {
    ($(($t:ident, $pf:ident, $signed:expr)),*) => {
        /// run every integer type over one string
        fn ints(r: &mut Report, s: &str) {
            $(
                // whole-string
                let g = konst::primitive::$pf(s).ok();
                let w: Option<$t> = if s.starts_with('+') { None } else { s.parse::<$t>().ok() };
                r.ev(if w.is_some() { concat!(stringify!($pf), ":whole:Ok") } else { concat!(stringify!($pf), ":whole:Err") });
                if g != w {
                    r.fail(concat!("primitive::", stringify!($pf)), stringify!($pf), format!("s={:?}", s), format!("{:?}", g), format!("{:?}", w));
                }
                // prefix through the Parser (base offset 3 so that "consumes nothing" is visible)
                let p = Parser::with_start_offset(s, 3);
                let w = ref_prefix::<$t>(s, $signed);
                r.ev(if w.is_some() { concat!(stringify!($pf), ":prefix:Ok") } else { concat!(stringify!($pf), ":prefix:Err") });
                match (p.$pf(), w) {
                    (Ok((gv, gp)), Some((wv, wrest))) => {
                        mon_sub_str(r, concat!("Parser::", stringify!($pf)), s, gp.remainder());
                        if gv != wv || gp.remainder() != wrest || gp.start_offset() != 3 + (s.len() - wrest.len()) || gp.end_offset() != 3 + s.len() {
                            r.fail(concat!("Parser::", stringify!($pf)), stringify!($pf), format!("s={:?}", s),
                                format!("Ok(({:?}, rem={:?}, start={}, end={}))", gv, gp.remainder(), gp.start_offset(), gp.end_offset()),
                                format!("Ok(({:?}, rem={:?}, start={}, end={}))", wv, wrest, 3 + (s.len() - wrest.len()), 3 + s.len()));
                        }
                    }
                    (Err(e), None) => {
                        // fails without consuming anything: the error points at the start of the input parser
                        if e.offset() != 3 || e.error_direction() != ParseDirection::FromStart {
                            r.fail(concat!("Parser::", stringify!($pf), ".error"), stringify!($pf), format!("s={:?}", s),
                                format!("offset={} dir={:?}", e.offset(), e.error_direction()), "offset=3 dir=FromStart".into());
                        }
                    }
                    (g, w) => {
                        r.fail(concat!("Parser::", stringify!($pf)), stringify!($pf), format!("s={:?}", s),
                            format!("{:?}", g.map(|x| (x.0, x.1.remainder())).map_err(|e| e.kind())), format!("{:?}", w));
                    }
                }
                // the parse_with!/HasParser route must be the same function
                let g2 = konst::parse_with!(p, $t);
                r.ev(concat!(stringify!($pf), ":parse_with"));
                if g2.map(|x| (x.0, x.1.remainder())).ok() != p.$pf().map(|x| (x.0, x.1.remainder())).ok() {
                    r.fail(concat!("parse_with!(", stringify!($t), ")"), "parse_with!", format!("s={:?}", s), "differs from the method".into(), "same as Parser method".into());
                }
            )*
        }
    };
}
int_checks!(
    (u8, parse_u8, false), (i8, parse_i8, true), (u16, parse_u16, false), (i16, parse_i16, true),
    (u32, parse_u32, false), (i32, parse_i32, true), (u64, parse_u64, false), (i64, parse_i64, true),
    (u128, parse_u128, false), (i128, parse_i128, true), (usize, parse_usize, false), (isize, parse_isize, true)
);

fn bools(r: &mut Report, s: &str) {
    let g = konst::primitive::parse_bool(s).ok();
    let w = s.parse::<bool>().ok();
    r.ev(if w.is_some() { "parse_bool:whole:Ok" } else { "parse_bool:whole:Err" });
    if g != w {
        r.fail("primitive::parse_bool", "parse_bool", format!("s={:?}", s), format!("{:?}", g), format!("{:?}", w));
    }
    let p = Parser::with_start_offset(s, 3);
    let w: Option<(bool, &str)> = if let Some(x) = s.strip_prefix("true") {
        Some((true, x))
    } else if let Some(x) = s.strip_prefix("false") {
        Some((false, x))
    } else {
        None
    };
    r.ev(if w.is_some() { "parse_bool:prefix:Ok" } else { "parse_bool:prefix:Err" });
    match (p.parse_bool(), w) {
        (Ok((gv, gp)), Some((wv, wrest))) if gv == wv && gp.remainder() == wrest && gp.start_offset() == 3 + s.len() - wrest.len() => {}
        (Err(e), None) if e.offset() == 3 && e.error_direction() == ParseDirection::FromStart => {}
        (g, w) => r.fail("Parser::parse_bool", "parse_bool", format!("s={:?}", s), format!("{:?}", g.map(|x| (x.0, x.1.remainder(), x.1.start_offset())).map_err(|e| (e.offset(), e.kind()))), format!("{:?}", w)),
    }
    if w.is_some() {
        r.nt(&s);
    }
}

fn nontrivial(r: &mut Report, s: &str) {
    // distinct strings that are a number (optionally signed) with at least 2 digits
    let t = s.strip_prefix('-').unwrap_or(s);
    if t.len() >= 2 && t.bytes().all(|b| b.is_ascii_digit()) {
        r.nt(&s);
    }
}

const PREFIXES: [&str; 11] = ["", "0", "00", "000", "0000", "-", "+", "-0", " ", "-00", "+0"];
const SUFFIXES: [&str; 9] = ["", "0", "9", " ", "a", "٣", "-", "+", "_"];

fn decorated(r: &mut Report, core: &str) {
    let neg = core.starts_with('-');
    let digits = core.trim_start_matches('-');
    for p in PREFIXES {
        for sfx in SUFFIXES {
            // prefix goes between the sign and the digits
            let s = if neg && !p.starts_with(['-', '+', ' ']) { format!("-{}{}{}", p, digits, sfx) } else { format!("{}{}{}", p, core, sfx) };
            ints(r, &s);
            nontrivial(r, &s);
        }
    }
}

/// boundary neighbourhoods for the wide types, built by string mutation (the reference is std's parser)
fn wide_candidates() -> Vec<String> {
    let mut bases: Vec<String> = Vec::new();
    macro_rules! b {
        ($($t:ident)*) => {$(
            bases.push($t::MAX.to_string());
            bases.push(($t::MAX / 10).to_string());
            bases.push(($t::MAX / 10 + 1).to_string());
            #[allow(unused_comparisons)]
            if $t::MIN < 0 { bases.push($t::MIN.to_string()); bases.push(($t::MIN / 10).to_string()); bases.push(($t::MIN / 10).wrapping_sub(1).to_string()); }
        )*};
    }
    b!(u8 i8 u16 i16 u32 i32 u64 i64 u128 i128 usize isize);
    bases.push("340282366920938463463374607431768211456".into()); // 2^128
    bases.push("99999999999999999999999999999999999999999".into());
    bases.push("10000000000000000000000000000000000000000".into());
    bases.sort();
    bases.dedup();
    let mut out: Vec<String> = Vec::new();
    for b in &bases {
        let neg = b.starts_with('-');
        let d = b.trim_start_matches('-');
        let mut forms: Vec<String> = vec![d.to_string()];
        // vary the last digit, append a digit, drop a digit
        for c in b'0'..=b'9' {
            let mut x = d.as_bytes().to_vec();
            *x.last_mut().unwrap() = c;
            forms.push(String::from_utf8(x).unwrap());
            forms.push(format!("{}{}", d, c as char));
        }
        if d.len() > 1 {
            forms.push(d[..d.len() - 1].to_string());
            // vary the first digit
            for c in b'1'..=b'9' {
                let mut x = d.as_bytes().to_vec();
                x[0] = c;
                forms.push(String::from_utf8(x).unwrap());
            }
        }
        for f in forms {
            for z in [0usize, 1, 2, 3, 5, 20, 40, 45] {
                let padded = format!("{}{}", "0".repeat(z), f);
                out.push(padded.clone());
                out.push(format!("-{}", padded));
                if neg {
                    out.push(format!("+{}", padded));
                }
            }
        }
    }
    out.sort();
    out.dedup();
    out
}

pub fn run(cfg: &Cfg) -> (&'static str, Report, String, String) {
    let mut rep = Report::new();
    // (a) every value of the 8-bit types, and of the 16-bit types (strided in the quick tier), decorated
    let stride16: i32 = cfg.by(4099, 7, 1);
    let mut cores: Vec<String> = Vec::new();
    for v in i8::MIN as i32..=u8::MAX as i32 {
        cores.push(v.to_string());
    }
    if !cfg.miri() {
        let mut v = i16::MIN as i32 - 3;
        while v <= u16::MAX as i32 + 3 {
            if !(-200..=300).contains(&v) {
                cores.push(v.to_string());
            }
            v += stride16;
        }
        for b in [i16::MIN as i32, i16::MAX as i32, u16::MAX as i32] {
            for d in -3..=3 {
                cores.push((b + d).to_string());
            }
        }
    }
    if cfg.miri() {
        // ~30 ms per monitored parse under the interpreter: the type limits only
        cores = ["-129", "-128", "-1", "0", "7", "127", "128", "255", "256"].iter().map(|s| s.to_string()).collect();
    }
    cores.sort();
    cores.dedup();
    rep.merge(par_for(cfg, cores.len(), |i, r| {
        decorated(r, &cores[i]);
        if i == 77 {
            r.sample(|| format!("core={:?} x {} prefixes x {} suffixes x 12 integer types (whole-string, Parser prefix parse, parse_with!)", cores[i], PREFIXES.len(), SUFFIXES.len()));
        }
    }));
    // (b) all short strings over a hostile alphabet
    let alpha = ["0", "1", "9", "-", "+", "a", " ", "٣"];
    let all = strings_upto(&alpha, cfg.by(1, 4, 6));
    rep.merge(par_for(cfg, all.len(), |i, r| {
        ints(r, &all[i]);
        nontrivial(r, &all[i]);
    }));
    // (c) wide-type neighbourhoods
    // (building and sorting the ~20 000 candidates is itself too slow for the interpreter)
    let wide: Vec<String> = if cfg.miri() {
        ["255", "256", "-128", "-129", "65535", "65536", "4294967295", "4294967296", "18446744073709551615", "18446744073709551616", "-9223372036854775808", "-9223372036854775809", "340282366920938463463374607431768211455", "340282366920938463463374607431768211456", "-170141183460469231731687303715884105728", "-170141183460469231731687303715884105729", "0000000000000000000000000000000000000000000007"].iter().map(|s| s.to_string()).collect()
    } else {
        wide_candidates()
    };
    rep.merge(par_for(cfg, wide.len(), |i, r| {

        for sfx in ["", ";rest", "a", " 1"] {
            let s = format!("{}{}", wide[i], sfx);
            ints(r, &s);
            nontrivial(r, &s);
        }
        if i == 1000 {
            r.sample(|| format!("wide candidate {:?} (+ suffixes)", wide[i]));
        }
    }));
    // (d) bool
    let balpha = ["t", "r", "u", "e", "f", "a", "l", "s", " "];
    let ball = strings_upto(&balpha, cfg.by(1, 5, 6));
    rep.merge(par_for(cfg, ball.len(), |i, r| bools(r, &ball[i])));
    if cfg.mine(0) {
        for core in ["true", "false", "True", "TRUE", "fals", "tru", "truefalse", "falsetrue"] {
            for sfx in ["", " ", "e", "x", "1", "\u{0}", "ñ"] {
                for pre in ["", " ", "+"] {
                    bools(&mut rep, &format!("{}{}{}", pre, core, sfx));
                }
            }
        }
    }
    // (f) every ASCII byte next to digits (the neighbours of '0'..='9' in the code table: '/' and ':', signs,
    //     whitespace, NUL, DEL) at the front, in the middle and at the end, plus a few multi-byte neighbours
    if cfg.mine(1) {
        let mut around: Vec<String> = (0u8..=127).filter(|b| !cfg.miri() || [b'/', b':'].contains(b)).map(|b| (b as char).to_string()).collect();
        around.extend(["\u{80}", "\u{660}", "\u{ff10}", "\u{2212}", "\u{1d7ce}"].map(String::from));
        for c in &around {
            for s in [c.clone(), format!("1{c}"), format!("{c}1"), format!("12{c}3"), format!("-{c}"), format!("-1{c}"), format!("-{c}1"), format!("0{c}0"), format!("25{c}"), format!("{c}{c}")] {
                ints(&mut rep, &s);
                bools(&mut rep, &s);
                nontrivial(&mut rep, &s);
            }
        }
        rep.ev("ascii-byte-sweep");
    }
    // (e) seeded random digit strings
    let nrand = cfg.by(5, 2000, 30000);
    rep.merge(par_for(cfg, nrand, |i, r| {
        let mut rng = Rng::new(cfg.seed.wrapping_mul(65_537).wrapping_add(i as u64));
        let mut s = String::new();
        if rng.chance(1, 3) {
            s.push('-');
        }
        for _ in 0..(if i % 16 == 15 { 150 + rng.below(100) } else { rng.below(6) }) {
            s.push('0');
        }
        for _ in 0..rng.below(42) {
            s.push((b'0' + rng.below(10) as u8) as char);
        }
        if rng.chance(1, 3) {
            s.push_str(*rng.pick(&["", "x", " ", "-1", "٣"]));
        }
        ints(r, &s);
        nontrivial(r, &s);
        if i == 2 {
            r.sample(|| format!("random {:?}", s));
        }
    }));
    (
        "C12",
        rep,
        format!("every value of u8/i8 and of u16/i16 (stride {}) x 11 prefixes (leading zeros, signs, space) x 9 suffixes; all {} strings over {{0,1,9,-,+,a,' ',٣}}; {} wide-type boundary strings (MAX, MIN, /10, last/first digit varied, extra digit, dropped digit, 0-45 leading zeros, signs) x 4 suffixes; all {} strings over {{t,r,u,e,f,a,l,s,' '}} for bool; {} random digit strings — each for all 12 integer types", stride16, all.len(), wide.len(), ball.len(), nrand),
        "one evaluation = one parse of one string by one type: primitive::parse_<t> vs str::parse (strings starting with '+' must be rejected), Parser::parse_<t> vs the prefix reference (optional '-' for signed, longest digit run, value via str::parse, remainder and both offsets compared; on failure error offset = start offset of the input parser and direction FromStart), parse_with! = method; non-trivial = distinct strings that are an optionally signed run of >= 2 digits (bool: strings with a true/false prefix)".into(),
    )
}
