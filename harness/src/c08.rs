//! C08 – slice iterators behave like std's double-ended slice iterators.
use crate::common::*;
use konst::slice as ks;

fn reg<T>(s: &[T]) -> (usize, usize) {
    (s.as_ptr() as usize, s.len())
}
fn same<T>(a: &[T], b: &[T]) -> bool {
    a.len() == b.len() && (a.is_empty() || core::mem::size_of::<T>() == 0 || a.as_ptr() == b.as_ptr())
}
fn rel<T>(base: &[T], s: &[T]) -> String {
    let sz = core::mem::size_of::<T>().max(1);
    format!("[{}..+{}]", (s.as_ptr() as usize).wrapping_sub(base.as_ptr() as usize) as isize / sz as isize, s.len())
}

/// Lockstep driver. `$k` konst iterator (by-value API), `$s` std iterator.
/// `$item_eq(g, w) -> bool`, `$show(x) -> String`, `$extra(&k, &s) -> Option<(String,String)>` = mismatch of
/// as_slice()/remainder() after the step.
macro_rules! drive {
    ($r:expr, $api:literal, $desc:expr, $mask:expr, $steps:expr, $k:expr, $s:expr, $item_eq:expr, $showg:expr, $showw:expr, $extra:expr) => {{
        let mut k = $k;
        let mut s = $s;
        // a fresh iterator's accessors must agree before any step
        if let Some((g, w)) = $extra(&k, &s) {
            $r.fail(concat!($api, ".accessor"), $api, format!("{} before any step", $desc), g, w);
        }
        for step in 0..$steps {
            let front = ($mask >> (step % 64)) & 1 == 0;
            let kc = k.copy();
            let g = catch(move || if front { kc.next() } else { kc.next_back() });
            let w = if front { s.next() } else { s.next_back() };
            $r.ev(if w.is_some() { concat!($api, ":item") } else { concat!($api, ":end") });
            let what = || format!("{} mask={:#b} step={} ({})", $desc, $mask, step, if front { "front" } else { "back" });
            match (g, w) {
                (Err(()), w) => {
                    $r.fail($api, $api, what(), "<panic>".into(), format!("{:?}", w.map(|x| $showw(x))));
                    break;
                }
                (Ok(None), None) => {}
                (Ok(Some((gi, nk))), Some(wi)) => {
                    if !$item_eq(&gi, &wi) {
                        $r.fail($api, $api, what(), $showg(gi), $showw(wi));
                        break;
                    }
                    // copy() gives an independent iterator with the same future: stepping a second
                    // copy of the original yields the same item again
                    let kc2 = k.copy();
                    match catch(move || if front { kc2.next() } else { kc2.next_back() }) {
                        Ok(Some((gi2, _))) if $item_eq(&gi2, &wi) => {}
                        _ => {
                            $r.fail(concat!($api, ".copy"), $api, what(), "second copy disagrees".into(), $showw(wi));
                            break;
                        }
                    }
                    k = nk;
                }
                (Ok(g), w) => {
                    $r.fail($api, $api, what(), format!("{:?}", g.map(|x| $showg(x.0))), format!("{:?}", w.map(|x| $showw(x))));
                    break;
                }
            }
            if let Some((g, w)) = $extra(&k, &s) {
                $r.fail(concat!($api, ".accessor"), $api, format!("{} after", what()), g, w);
                break;
            }
        }
    }};
}

struct RevI<I>(I);
impl<I: DoubleEndedIterator> RevI<I> {
    fn next(&mut self) -> Option<I::Item> {
        self.0.next_back()
    }
    fn next_back(&mut self) -> Option<I::Item> {
        self.0.next()
    }
}

fn no_extra<A, B>(_: &A, _: &B) -> Option<(String, String)> {
    None
}

fn masks_for(cfg: &Cfg, steps: usize, rng: &mut Rng) -> Vec<u64> {
    let all = 1u64 << steps;
    let cap = cfg.by(8, 256, 4096) as u64;
    if all <= cap {
        (0..all).collect()
    } else {
        let mut v: Vec<u64> = vec![0, all - 1, 0x5555_5555_5555_5555 & (all - 1), 0xAAAA_AAAA_AAAA_AAAA & (all - 1)];
        for _ in 0..cap - 4 {
            v.push(rng.next() & (all - 1));
        }
        v
    }
}

fn hostile_sizes(len: usize) -> Vec<usize> {
    let mut v: Vec<usize> = (1..=len + 2).collect();
    for x in [usize::MAX, usize::MAX - 1, usize::MAX - len, (usize::MAX - len).wrapping_add(1), usize::MAX / 2, usize::MAX / 2 + 1, usize::MAX / 2 + 2, isize::MAX as usize] {
        if x >= 1 && !v.contains(&x) {
            v.push(x);
        }
    }
    // values that change when truncated to a narrower integer: 2^w, 2^w + small, multiples of 2^w
    for w in [8u32, 16, 32] {
        let b = 1usize << w;
        for x in [b - 1, b, b + 1, b + len, b + len.saturating_sub(1), b + len / 2 + 1, 3 * b, 5 * b + 4] {
            if !v.contains(&x) {
                v.push(x);
            }
        }
    }
    v
}

fn run_elem<T: std::fmt::Debug + Clone + Sync + Send>(cfg: &Cfg, ty: &'static str, mk: &(dyn Fn(usize) -> T + Sync), maxlen: usize) -> Report {
    // work items: (len, size)
    let mut work: Vec<(usize, usize)> = Vec::new();
    for len in 0..=maxlen {
        for sz in hostile_sizes(len) {
            work.push((len, sz));
        }
    }
    par_for(cfg, work.len(), |wi, r| {
        let (len, size) = work[wi];
        let v: Vec<T> = (0..len).map(|k| mk(k)).collect();
        let sl: &[T] = &v;
        let mut rng = Rng::new(cfg.seed ^ (wi as u64) << 8);
        let showg = |x: &[T]| rel(sl, x);
        let item_eq = |g: &&[T], w: &&[T]| same(*g, *w);
        macro_rules! sub {
            ($api:literal, $kctor:expr, $sctor:expr, $count:expr, $extra:expr) => {{
                let steps = ($count + 2).min(62);
                let masks = masks_for(cfg, steps, &mut rng);
                for &m in &masks {
                    let desc = format!("T={} len={} size={}", ty, len, size);
                    drive!(r, $api, desc, m, steps, $kctor, $sctor, item_eq, |x: &[T]| showg(x), |x: &[T]| showg(x), $extra);
                    if m != 0 && m != (1u64 << steps) - 1 && $count >= 2 {
                        r.nt(&($api, ty, len, size, m));
                    }
                }
            }};
        }
        let small = size <= len + 2;
        let nchunks = if len == 0 { 0 } else { (len - 1) / size + 1 };
        let nexact = len / size;
        let nwin = if size <= len { len - size + 1 } else { 0 };
        sub!("windows", ks::windows(sl, size), sl.windows(size), nwin, no_extra);
        sub!("windows.rev", ks::windows(sl, size).rev(), RevI(sl.windows(size)), nwin, no_extra);
        sub!("chunks", ks::chunks(sl, size), sl.chunks(size), nchunks, no_extra);
        sub!("chunks.rev", ks::chunks(sl, size).rev(), RevI(sl.chunks(size)), nchunks, no_extra);
        sub!("rchunks", ks::rchunks(sl, size), sl.rchunks(size), nchunks, no_extra);
        sub!("rchunks.rev", ks::rchunks(sl, size).rev(), RevI(sl.rchunks(size)), nchunks, no_extra);
        let rem_ce = |k: &ks::ChunksExact<'_, T>, s: &std::slice::ChunksExact<'_, T>| {
            let (g, w) = (k.remainder(), s.remainder());
            if same(g, w) { None } else { Some((format!("remainder {}", rel(sl, g)), format!("remainder {}", rel(sl, w)))) }
        };
        sub!("chunks_exact", ks::chunks_exact(sl, size), sl.chunks_exact(size), nexact, |k: &ks::ChunksExact<'_, T>, _s: &_| {
            let s2 = sl.chunks_exact(size);
            rem_ce(k, &s2)
        });
        sub!("chunks_exact.rev", ks::chunks_exact(sl, size).rev(), RevI(sl.chunks_exact(size)), nexact, |k: &ks::ChunksExactRev<'_, T>, _s: &_| {
            let s2 = sl.chunks_exact(size);
            rem_ce(&k.copy().rev(), &s2)
        });
        let rem_rce = |k: &ks::RChunksExact<'_, T>| {
            let s2 = sl.rchunks_exact(size);
            let (g, w) = (k.remainder(), s2.remainder());
            if same(g, w) { None } else { Some((format!("remainder {}", rel(sl, g)), format!("remainder {}", rel(sl, w)))) }
        };
        sub!("rchunks_exact", ks::rchunks_exact(sl, size), sl.rchunks_exact(size), nexact, |k: &ks::RChunksExact<'_, T>, _s: &_| rem_rce(k));
        sub!("rchunks_exact.rev", ks::rchunks_exact(sl, size).rev(), RevI(sl.rchunks_exact(size)), nexact, |k: &ks::RChunksExactRev<'_, T>, _s: &_| rem_rce(&k.copy().rev()));
        if small && size == 1 {
            // element iterators (size-independent): run once per length
            let steps = len + 2;
            let masks = masks_for(cfg, steps, &mut rng);
            for &m in &masks {
                let desc = format!("T={} len={}", ty, len);
                let zst = core::mem::size_of::<T>() == 0;
                let ieq = |g: &&T, w: &&T| zst || core::ptr::eq(*g, *w);
                let sh = |x: &T| format!("elem#{}", ((x as *const T as usize).wrapping_sub(sl.as_ptr() as usize)) / core::mem::size_of::<T>().max(1));
                drive!(r, "iter", desc, m, steps, ks::iter(sl), sl.iter(), ieq, sh, sh, |k: &ks::Iter<'_, T>, s: &std::slice::Iter<'_, T>| {
                    let (g, w) = (k.as_slice(), s.as_slice());
                    if same(g, w) { None } else { Some((format!("as_slice {}", rel(sl, g)), format!("as_slice {}", rel(sl, w)))) }
                });
                drive!(r, "iter.rev", desc, m, steps, ks::iter(sl).rev(), RevI(sl.iter()), ieq, sh, sh, |k: &ks::IterRev<'_, T>, s: &RevI<std::slice::Iter<'_, T>>| {
                    let (g, w) = (k.as_slice(), s.0.as_slice());
                    if same(g, w) { None } else { Some((format!("as_slice {}", rel(sl, g)), format!("as_slice {}", rel(sl, w)))) }
                });
                if m != 0 && m != (1u64 << steps) - 1 && len >= 2 {
                    r.nt(&("iter", ty, len, m));
                }
            }
        }
        if wi == 40 {
            r.sample(|| format!("T={} len={} size={}: windows/chunks/rchunks/chunks_exact/rchunks_exact (+rev) under all front/back masks", ty, len, size));
        }
    })
}

fn copied(cfg: &Cfg, maxlen: usize) -> Report {
    par_for(cfg, maxlen + 1, |len, r| {
        let v: Vec<u16> = (0..len).map(|k| 100 + k as u16).collect();
        let sl: &[u16] = &v;
        let steps = len + 2;
        let mut rng = Rng::new(cfg.seed ^ 77);
        for &m in &masks_for(cfg, steps, &mut rng) {
            let desc = format!("T=u16 len={}", len);
            let ieq = |g: &u16, w: &u16| g == w;
            let sh = |x: u16| format!("{}", x);
            drive!(r, "iter_copied", desc, m, steps, ks::iter_copied(sl), sl.iter().copied(), ieq, sh, sh, |k: &ks::IterCopied<'_, u16>, _s: &_| {
                let _ = k.as_slice();
                None::<(String, String)>
            });
            drive!(r, "iter_copied.rev", desc, m, steps, ks::iter_copied(sl).rev(), RevI(sl.iter().copied()), ieq, sh, sh, no_extra);
            // as_slice of the copied iterator = remaining slice (checked against a parallel std iter)
            let mut k = ks::iter_copied(sl);
            let mut s = sl.iter();
            for step in 0..steps {
                let front = (m >> step) & 1 == 0;
                let nk = if front { k.copy().next() } else { k.copy().next_back() };
                let _ = if front { s.next() } else { s.next_back() };
                if let Some((_, nk)) = nk {
                    k = nk;
                }
                r.ev("iter_copied.as_slice");
                if !same(k.as_slice(), s.as_slice()) {
                    r.fail("iter_copied.as_slice", "iter_copied", format!("{} mask={:#b} step={}", desc, m, step), rel(sl, k.as_slice()), rel(sl, s.as_slice()));
                    break;
                }
            }
        }
    })
}

fn array_chunks<T: std::fmt::Debug + Clone + Sync + Send>(cfg: &Cfg, ty: &'static str, mk: &(dyn Fn(usize) -> T + Sync), maxlen: usize) -> Report {
    par_for(cfg, maxlen + 1, |len, r| {
        let v: Vec<T> = (0..len).map(|k| mk(k)).collect();
        let sl: &[T] = &v;
        let zst = core::mem::size_of::<T>() == 0;
        let mut rng = Rng::new(cfg.seed ^ 99);
        macro_rules! ac {
            ($($n:literal)*) => {$({
                let (warr, wrem) = sl.as_chunks::<$n>();
                let steps = warr.len() + 2;
                // constructing the iterator must not panic (a division by zero for ZSTs would)
                r.ev("array_chunks:construct");
                if catch(|| { let _ = ks::array_chunks::<T, $n>(sl); }).is_err() {
                    r.fail("array_chunks", "array_chunks", format!("T={} len={} N={} construction", ty, len, $n), "<panic>".into(), format!("{} chunks", warr.len()));
                } else {
                for &m in &masks_for(cfg, steps, &mut rng) {
                    let desc = format!("T={} len={} N={}", ty, len, $n);
                    let ieq = |g: &&[T; $n], w: &&[T; $n]| zst || core::ptr::eq(*g, *w);
                    let sh = |x: &[T; $n]| rel(sl, &x[..]);
                    let extra = |k: &ks::ArrayChunks<'_, T, $n>, _s: &std::slice::Iter<'_, [T; $n]>| {
                        let g = k.remainder();
                        if same(g, wrem) { None } else { Some((format!("remainder {}", rel(sl, g)), format!("remainder {}", rel(sl, wrem)))) }
                    };
                    drive!(r, "array_chunks", desc, m, steps, ks::array_chunks::<T, $n>(sl), warr.iter(), ieq, sh, sh, extra);
                    drive!(r, "array_chunks.rev", desc, m, steps, ks::array_chunks::<T, $n>(sl).rev(), RevI(warr.iter()), ieq, sh, sh, |k: &ks::ArrayChunksRev<'_, T, $n>, _s: &RevI<std::slice::Iter<'_, [T; $n]>>| {
                        let kk = k.copy().rev();
                        let g = kk.remainder();
                        if same(g, wrem) { None } else { Some((format!("remainder {}", rel(sl, g)), format!("remainder {}", rel(sl, wrem)))) }
                    });
                    if m != 0 && m != (1u64 << steps) - 1 && warr.len() >= 2 {
                        r.nt(&("array_chunks", ty, len, $n, m));
                    }
                }
                }
            })*};
        }
        ac!(1 2 3 4 5 8);
    })
}

/// long slices with sizes around typical block widths, random front/back masks (cycled every 64 steps)
fn long_iters(cfg: &Cfg) -> Report {
    let lens: &[usize] = if cfg.miri() { &[17] } else { &[17, 32, 33, 64, 65, 100] };
    let mut work: Vec<(usize, usize)> = Vec::new();
    for &len in lens {
        for size in [1usize, 2, 3, 7, 8, 9, 15, 16, 17, 31, 32, 33, len - 1, len, len + 1] {
            if !work.contains(&(len, size)) {
                work.push((len, size));
            }
        }
    }
    par_for(cfg, work.len(), |wi, r| {
        let (len, size) = work[wi];
        let v: Vec<u16> = (0..len).map(|k| k as u16).collect();
        let sl: &[u16] = &v;
        let mut rng = Rng::new(cfg.seed ^ ((wi as u64) << 20));
        let showg = |x: &[u16]| rel(sl, x);
        let item_eq = |g: &&[u16], w: &&[u16]| same(*g, *w);
        let masks: Vec<u64> = vec![0, u64::MAX, 0x5555_5555_5555_5555, rng.next(), rng.next(), rng.next()];
        macro_rules! sub {
            ($api:literal, $kctor:expr, $sctor:expr, $count:expr, $extra:expr) => {{
                let steps = $count + 2;
                for &m in &masks {
                    let desc = format!("T=u16 len={} size={}", len, size);
                    drive!(r, $api, desc, m, steps, $kctor, $sctor, item_eq, |x: &[u16]| showg(x), |x: &[u16]| showg(x), $extra);
                    r.nt(&($api, "long", len, size, m));
                }
            }};
        }
        let nchunks = (len - 1) / size + 1;
        let nwin = if size <= len { len - size + 1 } else { 0 };
        sub!("windows", ks::windows(sl, size), sl.windows(size), nwin, no_extra);
        sub!("chunks", ks::chunks(sl, size), sl.chunks(size), nchunks, no_extra);
        sub!("rchunks", ks::rchunks(sl, size), sl.rchunks(size), nchunks, no_extra);
        sub!("chunks_exact", ks::chunks_exact(sl, size), sl.chunks_exact(size), len / size, no_extra);
        sub!("rchunks_exact", ks::rchunks_exact(sl, size), sl.rchunks_exact(size), len / size, no_extra);
        sub!("chunks.rev", ks::chunks(sl, size).rev(), RevI(sl.chunks(size)), nchunks, no_extra);
        if size == 1 {
            let steps = len + 2;
            for &m in &masks {
                let desc = format!("T=u16 len={}", len);
                let ieq = |g: &&u16, w: &&u16| core::ptr::eq(*g, *w);
                let sh = |x: &u16| format!("elem#{}", x);
                drive!(r, "iter", desc, m, steps, ks::iter(sl), sl.iter(), ieq, sh, sh, |k: &ks::Iter<'_, u16>, s: &std::slice::Iter<'_, u16>| {
                    if same(k.as_slice(), s.as_slice()) { None } else { Some((rel(sl, k.as_slice()), rel(sl, s.as_slice()))) }
                });
                let ieq = |g: &u16, w: &u16| g == w;
                let sh = |x: u16| format!("{}", x);
                drive!(r, "iter_copied", desc, m, steps, ks::iter_copied(sl), sl.iter().copied(), ieq, sh, sh, no_extra);
            }
        }
    })
}

pub fn run(cfg: &Cfg) -> (&'static str, Report, String, String) {
    let maxlen = cfg.by(2, 7, 10);
    let mut rep = run_elem::<u16>(cfg, "u16", &|k| 100 + k as u16, maxlen);
    rep.merge(run_elem::<()>(cfg, "()", &|_| (), cfg.by(2, 5, 7)));
    rep.merge(run_elem::<String>(cfg, "String", &|k| format!("s{}", k), cfg.by(2, 5, 7)));
    // all-equal elements: sub-slices are only distinguishable by address
    rep.merge(run_elem::<u8>(cfg, "u8(all-equal)", &|_| 7u8, cfg.by(2, 5, 7)));
    rep.merge(copied(cfg, maxlen));
    rep.merge(long_iters(cfg));
    rep.merge(array_chunks::<u16>(cfg, "u16", &|k| 100 + k as u16, cfg.by(3, 9, 12)));
    rep.merge(array_chunks::<()>(cfg, "()", &|_| (), cfg.by(2, 7, 9)));
    rep.merge(array_chunks::<String>(cfg, "String", &|k| format!("s{}", k), cfg.by(2, 5, 7)));
    (
        "C08",
        rep,
        format!("lengths 0..={} (u16) / shorter for (), String, all-equal u8; sizes 1..=len+2 plus sizes around usize::MAX, usize::MAX/2, usize::MAX-len and around 2^8, 2^16, 2^32 (values that change when truncated to a narrower integer); all front/back masks of count+2 steps (sampled above the per-tier cap); array_chunks N in {{1,2,3,4,5,8}} over u16/()/String; long slices (17..=100 elements) with sizes around 8/16/32 and len-1/len/len+1 under six masks", maxlen),
        "one evaluation = one next/next_back step of iter / iter_copied / windows / chunks / rchunks / chunks_exact / rchunks_exact / array_chunks or their rev() forms, compared with the std iterator of the same name: item by address range (length only for ZST), as_slice()/remainder() after every step, copy() independence, exhausted stays exhausted (2 extra steps); a panic inside a konst step is a mismatch; non-trivial = distinct (iterator,type,len,size,mask) with >= 2 items and a mask mixing front and back steps".into(),
    )
}
