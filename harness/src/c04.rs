//! C04 – pattern search = std first/last occurrence (run(cfg,false))
//! C05 – prefix/suffix tests, stripping, trimming = std   (run(cfg,true))
//! Both walk the same haystack x needle space with all four pattern kinds.
use crate::common::*;
use konst::slice as ks;
use konst::slice::BytesPattern;
use konst::string as kstr;
use konst::string::Pattern;

// ------------------------------------------------------------ naive byte references

fn naive_find(h: &[u8], n: &[u8]) -> Option<usize> {
    if n.len() > h.len() {
        return None;
    }
    (0..=h.len() - n.len()).find(|&i| &h[i..i + n.len()] == n)
}
fn naive_rfind(h: &[u8], n: &[u8]) -> Option<usize> {
    if n.len() > h.len() {
        return None;
    }
    (0..=h.len() - n.len()).rev().find(|&i| &h[i..i + n.len()] == n)
}
fn naive_trim_start<'a>(mut h: &'a [u8], n: &[u8]) -> &'a [u8] {
    if n.is_empty() {
        return h;
    }
    while h.starts_with(n) {
        h = &h[n.len()..];
    }
    h
}
fn naive_trim_end<'a>(mut h: &'a [u8], n: &[u8]) -> &'a [u8] {
    if n.is_empty() {
        return h;
    }
    while h.ends_with(n) {
        h = &h[..h.len() - n.len()];
    }
    h
}
fn count_occ(h: &[u8], n: &[u8]) -> usize {
    if n.is_empty() || n.len() > h.len() {
        return 0;
    }
    (0..=h.len() - n.len()).filter(|&i| &h[i..i + n.len()] == n).count()
}
fn self_overlapping(n: &[u8]) -> bool {
    (1..n.len()).any(|k| n[..n.len() - k] == n[k..])
}

fn oreg(x: Option<&[u8]>) -> Option<(usize, usize)> {
    x.map(|s| (s.as_ptr() as usize, s.len()))
}
fn same_opt_region(g: Option<&[u8]>, w: Option<&[u8]>) -> bool {
    match (g, w) {
        (None, None) => true,
        (Some(a), Some(b)) => a.len() == b.len() && (a.is_empty() || a.as_ptr() == b.as_ptr()),
        _ => false,
    }
}

// ------------------------------------------------------------ byte-slice functions

fn bytes_search<const N: usize, P: ?Sized + BytesPattern<N>>(r: &mut Report, kind: &'static str, h: &[u8], p: &P, n: &[u8]) {
    let inp = || format!("kind={} haystack={:?} needle={:?}", kind, h, n);
    let wf = naive_find(h, n);
    let g = ks::bytes_find(h, p);
    r.ev(if wf.is_some() { "bytes_find:Some" } else { "bytes_find:None" });
    r.eq("bytes_find", inp, &g, &wf);
    let g = ks::bytes_contain(h, p);
    r.ev("bytes_contain");
    r.eq("bytes_contain", inp, &g, &wf.is_some());
    let g = ks::bytes_find_skip(h, p);
    if let Some(x) = g {
        mon_sub_slice(r, "slice::bytes_find_skip", h, x);
    }
    let w = wf.map(|i| &h[i + n.len()..]);
    r.ev("bytes_find_skip");
    if !same_opt_region(g, w) {
        r.fail("bytes_find_skip", "bytes_find_skip", inp(), format!("{:?}", g), format!("{:?}", w));
    }
    let g = ks::bytes_find_keep(h, p);
    if let Some(x) = g {
        mon_sub_slice(r, "slice::bytes_find_keep", h, x);
    }
    let w = wf.map(|i| &h[i..]);
    r.ev("bytes_find_keep");
    if !same_opt_region(g, w) {
        r.fail("bytes_find_keep", "bytes_find_keep", inp(), format!("{:?}", g), format!("{:?}", w));
    }
    if !n.is_empty() {
        let wr = naive_rfind(h, n);
        let g = ks::bytes_rfind(h, p);
        r.ev(if wr.is_some() { "bytes_rfind:Some" } else { "bytes_rfind:None" });
        r.eq("bytes_rfind", inp, &g, &wr);
        let g = ks::bytes_rcontain(h, p);
        r.ev("bytes_rcontain");
        r.eq("bytes_rcontain", inp, &g, &wr.is_some());
        let g = ks::bytes_rfind_skip(h, p);
        if let Some(x) = g {
            mon_sub_slice(r, "slice::bytes_rfind_skip", h, x);
        }
        let w = wr.map(|i| &h[..i]);
        r.ev("bytes_rfind_skip");
        if !same_opt_region(g, w) {
            r.fail("bytes_rfind_skip", "bytes_rfind_skip", inp(), format!("{:?}", g), format!("{:?}", w));
        }
        let g = ks::bytes_rfind_keep(h, p);
        if let Some(x) = g {
            mon_sub_slice(r, "slice::bytes_rfind_keep", h, x);
        }
        let w = wr.map(|i| &h[..i + n.len()]);
        r.ev("bytes_rfind_keep");
        if !same_opt_region(g, w) {
            r.fail("bytes_rfind_keep", "bytes_rfind_keep", inp(), format!("{:?}", g), format!("{:?}", w));
        }
    } else {
        // reverse search with an empty pattern: unspecified by the property; only the C01 monitors run
        if let Some(x) = ks::bytes_rfind_skip(h, p) {
            mon_sub_slice(r, "slice::bytes_rfind_skip", h, x);
        }
        if let Some(x) = ks::bytes_rfind_keep(h, p) {
            mon_sub_slice(r, "slice::bytes_rfind_keep", h, x);
        }
        let _ = ks::bytes_rfind(h, p);
    }
}

fn bytes_affix<const N: usize, P: ?Sized + BytesPattern<N>>(r: &mut Report, kind: &'static str, h: &[u8], p: &P, n: &[u8]) {
    let inp = || format!("kind={} haystack={:?} needle={:?}", kind, h, n);
    let g = ks::bytes_start_with(h, p);
    r.ev(if h.starts_with(n) { "bytes_start_with:true" } else { "bytes_start_with:false" });
    r.eq("bytes_start_with", inp, &g, &h.starts_with(n));
    let g = ks::bytes_end_with(h, p);
    r.ev(if h.ends_with(n) { "bytes_end_with:true" } else { "bytes_end_with:false" });
    r.eq("bytes_end_with", inp, &g, &h.ends_with(n));
    let g = ks::bytes_strip_prefix(h, p);
    if let Some(x) = g {
        mon_sub_slice(r, "slice::bytes_strip_prefix", h, x);
    }
    let w = h.strip_prefix(n);
    r.ev(if w.is_some() { "bytes_strip_prefix:Some" } else { "bytes_strip_prefix:None" });
    if !same_opt_region(g, w) {
        r.fail("bytes_strip_prefix", "bytes_strip_prefix", inp(), format!("{:?}", g), format!("{:?}", w));
    }
    let g = ks::bytes_strip_suffix(h, p);
    if let Some(x) = g {
        mon_sub_slice(r, "slice::bytes_strip_suffix", h, x);
    }
    let w = h.strip_suffix(n);
    r.ev(if w.is_some() { "bytes_strip_suffix:Some" } else { "bytes_strip_suffix:None" });
    if !same_opt_region(g, w) {
        r.fail("bytes_strip_suffix", "bytes_strip_suffix", inp(), format!("{:?}", g), format!("{:?}", w));
    }
    let g = ks::bytes_trim_start_matches(h, p);
    mon_sub_slice(r, "slice::bytes_trim_start_matches", h, g);
    let w = naive_trim_start(h, n);
    r.ev(if w.len() < h.len() { "bytes_trim_start_matches:trimmed" } else { "bytes_trim_start_matches:unchanged" });
    if !same_opt_region(Some(g), Some(w)) {
        r.fail("bytes_trim_start_matches", "bytes_trim_start_matches", inp(), format!("{:?}", g), format!("{:?}", w));
    }
    let g = ks::bytes_trim_end_matches(h, p);
    mon_sub_slice(r, "slice::bytes_trim_end_matches", h, g);
    let w = naive_trim_end(h, n);
    r.ev(if w.len() < h.len() { "bytes_trim_end_matches:trimmed" } else { "bytes_trim_end_matches:unchanged" });
    if !same_opt_region(Some(g), Some(w)) {
        r.fail("bytes_trim_end_matches", "bytes_trim_end_matches", inp(), format!("{:?}", g), format!("{:?}", w));
    }
    let g = ks::bytes_trim_matches(h, p);
    mon_sub_slice(r, "slice::bytes_trim_matches", h, g);
    let w = naive_trim_end(naive_trim_start(h, n), n);
    r.ev(if w.len() < h.len() { "bytes_trim_matches:trimmed" } else { "bytes_trim_matches:unchanged" });
    if !same_opt_region(Some(g), Some(w)) {
        r.fail("bytes_trim_matches", "bytes_trim_matches", inp(), format!("{:?}", g), format!("{:?}", w));
    }
}

fn bytes_all_kinds(r: &mut Report, trim: bool, h: &[u8], n: &[u8]) {
    macro_rules! both {
        ($kind:expr, $p:expr) => {
            if trim {
                bytes_affix(r, $kind, h, $p, n)
            } else {
                bytes_search(r, $kind, h, $p, n)
            }
        };
    }
    both!("[u8]", n);
    macro_rules! arr {
        ($($k:literal)*) => {
            match n.len() {
                $( $k => { let a: [u8; $k] = n.try_into().unwrap(); both!("[u8;N]", &a); } )*
                _ => {}
            }
        };
    }
    arr!(0 1 2 3 4 5 6 7 8);
    if let Ok(s) = core::str::from_utf8(n) {
        both!("str", s);
        let mut cs = s.chars();
        if let (Some(c), None) = (cs.next(), cs.next()) {
            both!("char", &c);
        }
    }
}

// ------------------------------------------------------------ string functions

fn same_opt_str(h: &str, g: Option<&str>, w: Option<&str>) -> bool {
    match (g, w) {
        (None, None) => true,
        (Some(a), Some(b)) => a == b && (a.is_empty() || off_in(h, a) == off_in(h, b)),
        _ => false,
    }
}

fn str_search<'p, P: Pattern<'p>>(r: &mut Report, kind: &'static str, h: &str, p: P, n: &str) {
    let inp = || format!("kind={} haystack={:?} needle={:?}", kind, h, n);
    let wf = h.find(n);
    let g = kstr::find(h, p);
    r.ev(if wf.is_some() { "find:Some" } else { "find:None" });
    r.eq("find", inp, &g, &wf);
    let g = kstr::contains(h, p);
    r.ev("contains");
    r.eq("contains", inp, &g, &h.contains(n));
    let g = kstr::find_skip(h, p);
    if let Some(x) = g {
        mon_sub_str(r, "string::find_skip", h, x);
    }
    let w = wf.map(|i| &h[i + n.len()..]);
    r.ev("find_skip");
    if !same_opt_str(h, g, w) {
        r.fail("find_skip", "find_skip", inp(), format!("{:?}", g), format!("{:?}", w));
    }
    let g = kstr::find_keep(h, p);
    if let Some(x) = g {
        mon_sub_str(r, "string::find_keep", h, x);
    }
    let w = wf.map(|i| &h[i..]);
    r.ev("find_keep");
    if !same_opt_str(h, g, w) {
        r.fail("find_keep", "find_keep", inp(), format!("{:?}", g), format!("{:?}", w));
    }
    let g = kstr::split_once(h, p);
    if let Some((a, b)) = g {
        mon_sub_str(r, "string::split_once.0", h, a);
        mon_sub_str(r, "string::split_once.1", h, b);
    }
    let w = h.split_once(n);
    r.ev(if w.is_some() { "split_once:Some" } else { "split_once:None" });
    r.eq("split_once", inp, &g, &w);
    if !n.is_empty() {
        let wr = h.rfind(n);
        let g = kstr::rfind(h, p);
        r.ev(if wr.is_some() { "rfind:Some" } else { "rfind:None" });
        r.eq("rfind", inp, &g, &wr);
        let g = kstr::rcontains(h, p);
        r.ev("rcontains");
        r.eq("rcontains", inp, &g, &wr.is_some());
        let g = kstr::rfind_skip(h, p);
        if let Some(x) = g {
            mon_sub_str(r, "string::rfind_skip", h, x);
        }
        let w = wr.map(|i| &h[..i]);
        r.ev("rfind_skip");
        if !same_opt_str(h, g, w) {
            r.fail("rfind_skip", "rfind_skip", inp(), format!("{:?}", g), format!("{:?}", w));
        }
        let g = kstr::rfind_keep(h, p);
        if let Some(x) = g {
            mon_sub_str(r, "string::rfind_keep", h, x);
        }
        let w = wr.map(|i| &h[..i + n.len()]);
        r.ev("rfind_keep");
        if !same_opt_str(h, g, w) {
            r.fail("rfind_keep", "rfind_keep", inp(), format!("{:?}", g), format!("{:?}", w));
        }
        let g = kstr::rsplit_once(h, p);
        if let Some((a, b)) = g {
            mon_sub_str(r, "string::rsplit_once.0", h, a);
            mon_sub_str(r, "string::rsplit_once.1", h, b);
        }
        let w = h.rsplit_once(n);
        r.ev(if w.is_some() { "rsplit_once:Some" } else { "rsplit_once:None" });
        r.eq("rsplit_once", inp, &g, &w);
    } else {
        if let Some(x) = kstr::rfind_skip(h, p) {
            mon_sub_str(r, "string::rfind_skip", h, x);
        }
        if let Some(x) = kstr::rfind_keep(h, p) {
            mon_sub_str(r, "string::rfind_keep", h, x);
        }
        if let Some((a, b)) = kstr::rsplit_once(h, p) {
            mon_sub_str(r, "string::rsplit_once.0", h, a);
            mon_sub_str(r, "string::rsplit_once.1", h, b);
        }
        let _ = kstr::rfind(h, p);
    }
}

fn str_affix<'p, P: Pattern<'p>>(r: &mut Report, kind: &'static str, h: &str, p: P, n: &str) {
    let inp = || format!("kind={} haystack={:?} needle={:?}", kind, h, n);
    let g = kstr::starts_with(h, p);
    r.ev(if h.starts_with(n) { "starts_with:true" } else { "starts_with:false" });
    r.eq("starts_with", inp, &g, &h.starts_with(n));
    let g = kstr::ends_with(h, p);
    r.ev(if h.ends_with(n) { "ends_with:true" } else { "ends_with:false" });
    r.eq("ends_with", inp, &g, &h.ends_with(n));
    let g = kstr::strip_prefix(h, p);
    if let Some(x) = g {
        mon_sub_str(r, "string::strip_prefix", h, x);
    }
    let w = h.strip_prefix(n);
    r.ev(if w.is_some() { "strip_prefix:Some" } else { "strip_prefix:None" });
    if !same_opt_str(h, g, w) {
        r.fail("strip_prefix", "strip_prefix", inp(), format!("{:?}", g), format!("{:?}", w));
    }
    let g = kstr::strip_suffix(h, p);
    if let Some(x) = g {
        mon_sub_str(r, "string::strip_suffix", h, x);
    }
    let w = h.strip_suffix(n);
    r.ev(if w.is_some() { "strip_suffix:Some" } else { "strip_suffix:None" });
    if !same_opt_str(h, g, w) {
        r.fail("strip_suffix", "strip_suffix", inp(), format!("{:?}", g), format!("{:?}", w));
    }
    // std's trim_*_matches with an empty &str pattern loops over empty matches and returns the
    // input's tail; the property fixes "an empty pattern removes nothing"
    let ws: &str = if n.is_empty() { h } else { h.trim_start_matches(n) };
    let we: &str = if n.is_empty() { h } else { h.trim_end_matches(n) };
    let wb: &str = if n.is_empty() { h } else { h.trim_start_matches(n).trim_end_matches(n) };
    let g = kstr::trim_start_matches(h, p);
    mon_sub_str(r, "string::trim_start_matches", h, g);
    r.ev(if ws.len() < h.len() { "trim_start_matches:trimmed" } else { "trim_start_matches:unchanged" });
    if !same_opt_str(h, Some(g), Some(ws)) {
        r.fail("trim_start_matches", "trim_start_matches", inp(), format!("{:?}", g), format!("{:?}", ws));
    }
    let g = kstr::trim_end_matches(h, p);
    mon_sub_str(r, "string::trim_end_matches", h, g);
    r.ev(if we.len() < h.len() { "trim_end_matches:trimmed" } else { "trim_end_matches:unchanged" });
    if !same_opt_str(h, Some(g), Some(we)) {
        r.fail("trim_end_matches", "trim_end_matches", inp(), format!("{:?}", g), format!("{:?}", we));
    }
    let g = kstr::trim_matches(h, p);
    mon_sub_str(r, "string::trim_matches", h, g);
    r.ev(if wb.len() < h.len() { "trim_matches:trimmed" } else { "trim_matches:unchanged" });
    if !same_opt_str(h, Some(g), Some(wb)) {
        r.fail("trim_matches", "trim_matches", inp(), format!("{:?}", g), format!("{:?}", wb));
    }
}

fn pair(r: &mut Report, trim: bool, h: &str, n: &str) {
    if trim {
        str_affix(r, "&str", h, n, n);
    } else {
        str_search(r, "&str", h, n, n);
    }
    let mut cs = n.chars();
    if let (Some(c), None) = (cs.next(), cs.next()) {
        if trim {
            str_affix(r, "char", h, c, n);
        } else {
            str_search(r, "char", h, c, n);
        }
    }
    bytes_all_kinds(r, trim, h.as_bytes(), n.as_bytes());
    let (hb, nb) = (h.as_bytes(), n.as_bytes());
    if trim {
        if !nb.is_empty() && (hb.starts_with(nb) || hb.ends_with(nb)) && hb.len() > nb.len() {
            r.nt(&(h, n));
        }
    } else {
        let occ = count_occ(hb, nb);
        if occ > 1 || (occ == 1 && naive_find(hb, nb) != Some(0)) || (occ >= 1 && self_overlapping(nb)) {
            r.nt(&(h, n));
        }
    }
}

// ------------------------------------------------------------ whitespace trimming (C05)

fn ws_bytes(r: &mut Report, h: &[u8]) {
    let inp = || format!("bytes={:?}", h);
    let g = ks::bytes_trim(h);
    mon_sub_slice(r, "slice::bytes_trim", h, g);
    let w = h.trim_ascii();
    r.ev(if w.len() < h.len() { "bytes_trim:trimmed" } else { "bytes_trim:unchanged" });
    if !same_opt_region(Some(g), Some(w)) {
        r.fail("bytes_trim", "bytes_trim", inp(), format!("{:?}", g), format!("{:?}", w));
    }
    let g = ks::bytes_trim_start(h);
    mon_sub_slice(r, "slice::bytes_trim_start", h, g);
    let w = h.trim_ascii_start();
    r.ev(if w.len() < h.len() { "bytes_trim_start:trimmed" } else { "bytes_trim_start:unchanged" });
    if !same_opt_region(Some(g), Some(w)) {
        r.fail("bytes_trim_start", "bytes_trim_start", inp(), format!("{:?}", g), format!("{:?}", w));
    }
    let g = ks::bytes_trim_end(h);
    mon_sub_slice(r, "slice::bytes_trim_end", h, g);
    let w = h.trim_ascii_end();
    r.ev(if w.len() < h.len() { "bytes_trim_end:trimmed" } else { "bytes_trim_end:unchanged" });
    if !same_opt_region(Some(g), Some(w)) {
        r.fail("bytes_trim_end", "bytes_trim_end", inp(), format!("{:?}", g), format!("{:?}", w));
    }
    if h.trim_ascii().len() < h.len() && !h.trim_ascii().is_empty() {
        r.nt(&h);
    }
}
fn ws_str(r: &mut Report, h: &str) {
    let inp = || format!("str={:?}", h);
    let g = kstr::trim(h);
    mon_sub_str(r, "string::trim", h, g);
    let w = h.trim_ascii();
    r.ev(if w.len() < h.len() { "trim:trimmed" } else { "trim:unchanged" });
    if !same_opt_str(h, Some(g), Some(w)) {
        r.fail("trim", "trim", inp(), format!("{:?}", g), format!("{:?}", w));
    }
    let g = kstr::trim_start(h);
    mon_sub_str(r, "string::trim_start", h, g);
    let w = h.trim_ascii_start();
    r.ev(if w.len() < h.len() { "trim_start:trimmed" } else { "trim_start:unchanged" });
    if !same_opt_str(h, Some(g), Some(w)) {
        r.fail("trim_start", "trim_start", inp(), format!("{:?}", g), format!("{:?}", w));
    }
    let g = kstr::trim_end(h);
    mon_sub_str(r, "string::trim_end", h, g);
    let w = h.trim_ascii_end();
    r.ev(if w.len() < h.len() { "trim_end:trimmed" } else { "trim_end:unchanged" });
    if !same_opt_str(h, Some(g), Some(w)) {
        r.fail("trim_end", "trim_end", inp(), format!("{:?}", g), format!("{:?}", w));
    }
}

fn whitespace(cfg: &Cfg) -> Report {
    let mut rep = Report::new();
    if cfg.mine(0) {
        // every byte value as prefix / suffix / both around 'x' and alone
        for b in (0..=255u8).filter(|b| !cfg.miri() || [9u8, 10, 11, 12, 13, 32, 0x85, 0xA0, 0x1C, b'x', 0, 0xFF].contains(b)) {
            for h in [vec![b, b'x'], vec![b'x', b], vec![b, b'x', b], vec![b], vec![b, b, b'x', b'y', b]] {
                ws_bytes(&mut rep, &h);
                if let Ok(s) = core::str::from_utf8(&h) {
                    ws_str(&mut rep, s);
                }
            }
        }
    }
    let alpha: [u8; 8] = [b'\t', b'\n', 0x0B, 0x0C, b'\r', b' ', b'x', 0];
    let all = bytes_upto(&alpha, cfg.by(1, 4, 5));
    rep.merge(par_for(cfg, all.len(), |i, r| {
        ws_bytes(r, &all[i]);
        ws_str(r, core::str::from_utf8(&all[i]).unwrap());
        if i == 1234 {
            r.sample(|| format!("whitespace bytes={:?}", all[i]));
        }
    }));
    // planted runs: `lead` whitespace bytes, a body, `trail` whitespace bytes, for every pair of run lengths
    // (word- or block-wise fast paths have their cases at 8/16/32 bytes) and every ASCII whitespace byte,
    // plus runs that alternate two kinds
    let maxrun = cfg.by(9, 34, 70);
    rep.merge(par_for(cfg, maxrun + 1, |lead, r| {
        for trail in 0..=maxrun {
            if cfg.miri() && !(trail % 8 <= 1) {
                continue;
            }
            for w in [b' ', b'\t', b'\n', 0x0Cu8, b'\r'] {
                for body in [&b"x"[..], b"x y", b"", b"\x0Bx\x0B", "ñ".as_bytes()] {
                    let mut h = vec![w; lead];
                    h.extend_from_slice(body);
                    h.extend(std::iter::repeat(w).take(trail));
                    ws_bytes(r, &h);
                    ws_str(r, core::str::from_utf8(&h).unwrap());
                    if w == b' ' && lead + trail > 0 {
                        // alternate with a second kind
                        let mut h2: Vec<u8> = (0..lead).map(|i| if i % 2 == 0 { b' ' } else { b'\t' }).collect();
                        h2.extend_from_slice(body);
                        h2.extend((0..trail).map(|i| if i % 3 == 0 { b'\n' } else { b' ' }));
                        ws_bytes(r, &h2);
                    }
                }
            }
        }
        r.ev("planted-whitespace-runs");
    }));
    // non-ASCII whitespace must be kept
    let ualpha = [" ", "\t", "x", "\u{85}", "\u{a0}", "\u{2003}", "\u{c}"];
    let us = strings_upto(&ualpha, cfg.by(1, 3, 4));
    rep.merge(par_for(cfg, us.len(), |i, r| {
        ws_str(r, &us[i]);
        ws_bytes(r, us[i].as_bytes());
    }));
    rep
}

// ------------------------------------------------------------ driver

pub fn run(cfg: &Cfg, trim: bool) -> (&'static str, Report, String, String) {
    let alpha = ["a", "b", "ñ"];
    let (hl, nl) = (cfg.by(3, 6, 8), cfg.by(3, 3, 4));
    let hs = strings_upto(&alpha, hl);
    let ns: Vec<String> = if cfg.miri() { ["", "a", "ñ", "ab", "aa", "ñb", "aab", "bñ"].iter().map(|x| x.to_string()).collect() } else { strings_upto(&alpha, nl) };
    let mut rep = par_for(cfg, hs.len(), |i, r| {
        for n in &ns {
            pair(r, trim, &hs[i], n);
        }
        if i == 500 {
            r.sample(|| format!("haystack={:?} x all {} needles over {{a,b,ñ}} up to {} chars, e.g. {:?}", hs[i], ns.len(), nl, ns.get(17)));
        }
    });
    // raw byte alphabet incl. an invalid-UTF-8 byte; needle longer than haystack included
    let balpha = [0x61u8, 0x62, 0xFF];
    let bhs = bytes_upto(&balpha, cfg.by(2, 6, 7));
    let bns = bytes_upto(&balpha, cfg.by(1, 4, 5));
    rep.merge(par_for(cfg, bhs.len(), |i, r| {
        for n in &bns {
            bytes_all_kinds(r, trim, &bhs[i], n);
            let occ = count_occ(&bhs[i], n);
            if !trim && (occ > 1 || (occ >= 1 && self_overlapping(n))) {
                r.nt(&(&bhs[i], n));
            }
            if trim && !n.is_empty() && bhs[i].len() > n.len() && (bhs[i].starts_with(n) || bhs[i].ends_with(n)) {
                r.nt(&(&bhs[i], n));
            }
        }
    }));
    // one byte of every UTF-8 class (ASCII, continuation low/high, 2-/3-/4-byte lead, never-valid) in haystack and
    // needle: byte-slice patterns are arbitrary bytes, whatever the search loop assumes about char boundaries
    let calpha = [0x61u8, 0x80, 0xBF, 0xC3, 0xE2, 0xF0, 0xFF];
    let chs = bytes_upto(&calpha, cfg.by(2, 4, 5));
    let cns = bytes_upto(&calpha, cfg.by(1, 2, 3));
    rep.merge(par_for(cfg, chs.len(), |i, r| {
        for n in &cns {
            bytes_all_kinds(r, trim, &chs[i], n);
            if !n.is_empty() && count_occ(&chs[i], n) >= 1 && chs[i].len() > n.len() {
                r.nt(&(&chs[i], n));
            }
        }
    }));
    // multi-byte needles whose encodings share bytes (ñ = C3 B1, ó = C3 B3, 個 = E5 80 8B, 倀 = E5 80 80)
    let malpha = ["ñ", "ó", "個", "倀", "x"];
    let mhs = strings_upto(&malpha, cfg.by(1, 4, 5));
    let mns = strings_upto(&malpha, cfg.by(1, 2, 2));
    rep.merge(par_for(cfg, mhs.len(), |i, r| {
        for n in &mns {
            pair(r, trim, &mhs[i], n);
        }
    }));
    // every lead-byte class as haystack text and as char / str needle
    let mut la: Vec<&str> = LEADS.to_vec();
    la.extend(LEADS_HI3);
    la.extend(ASCII_EDGES);
    let lhs = strings_upto(&la, cfg.by(1, 2, 3));
    let lns = strings_upto(&la, 1);
    rep.merge(par_for(cfg, lhs.len(), |i, r| {
        for n in &lns {
            pair(r, trim, &lhs[i], n);
        }
    }));
    // seeded random long inputs over 2-3 symbol alphabets
    let nrand = cfg.by(4, 3000, 20000);
    rep.merge(par_for(cfg, nrand, |i, r| {
        let mut rng = Rng::new(cfg.seed.wrapping_mul(7_919).wrapping_add(i as u64));
        let al: &[&str] = if rng.chance(1, 2) { &["a", "b"] } else { &["a", "b", "ñ"] };
        // one in eight haystacks is long (block-wise search refactors only show beyond 32/64 bytes)
        let hl = if i % 8 == 7 { cfg.by(40, 300, 300) } else { cfg.by(12, 64, 64) };
        let n = random_string(&mut rng, al, if i % 16 == 15 { 40 } else { 8 });
        // plant the needle (or a near miss) to make hits frequent
        let mut h = random_string(&mut rng, al, hl);
        if rng.chance(2, 3) && !n.is_empty() {
            let reps = 1 + rng.below(3);
            let at = rng.below(h.chars().count() + 1);
            let byte_at = h.char_indices().nth(at).map(|x| x.0).unwrap_or(h.len());
            let mut ins = n.repeat(reps);
            if rng.chance(1, 2) {
                let cut = n.char_indices().nth(rng.below(n.chars().count())).map(|x| x.0).unwrap_or(0);
                ins.push_str(&n[..cut]);
            }
            h.insert_str(byte_at, &ins);
        }
        pair(r, trim, &h, &n);
        if i == 3 {
            r.sample(|| format!("random haystack={:?} needle={:?}", h, n));
        }
    }));
    // planted: a filler haystack of every length 0..=L, one occurrence of the needle at every offset p and a
    // failed candidate (the needle's first byte/char alone) at every offset q before it - word- or block-wise
    // search loops have their special cases at multiples of 8/16/32 bytes from the start or from q
    let maxl = cfg.by(18, 72, 140);
    rep.merge(par_for(cfg, maxl + 1, |l, r| {
        // short needles with a near miss at every earlier offset; long needles (word-at-a-time comparisons of the
        // needle itself have their cases at 8/9/16/17/32/33 bytes) with a near miss at three offsets
        for n in ["ab", "a", "abc", "ñb", "abcdefgh", "abcdefghi", "0123456789abcdef", "0123456789abcdefg", "abcdefghijklmnopqrstuvwxyz012345", "abcdefghijklmnopqrstuvwxyz0123456", "ñ23456789"] {
            let long = n.len() >= 8;
            if long && (cfg.miri() || l % 3 != 0) {
                continue;
            }
            let first = &n[..n.chars().next().unwrap().len_utf8()];
            for p in 0..=l {
                if cfg.miri() && !(p % 8 <= 1 || p == l) {
                    continue;
                }
                let qs: Vec<Option<usize>> = if cfg.miri() { vec![None, Some(0)] } else if long { vec![None, Some(0), p.checked_sub(1)] } else { std::iter::once(None).chain((0..p).map(Some)).collect() };
                for q in qs {
                    // filler 'x' everywhere, needle at byte offset p (of the filler), near miss at q
                    let mut h = String::with_capacity(l + 8);
                    for i in 0..l {
                        if i == p {
                            h.push_str(n);
                        }
                        if Some(i) == q && n.len() > first.len() {
                            h.push_str(first);
                        }
                        h.push('x');
                    }
                    if p == l {
                        h.push_str(n);
                    }
                    pair(r, trim, &h, n);
                }
            }
        }
        // one-byte needles next to their bit-neighbours (what a word-at-a-time byte test confuses them with)
        if l >= 2 && !cfg.miri() {
            for d in [b',', b'/', b'a', 0x80u8] {
                for nb in [d ^ 1, d.wrapping_add(1), d.wrapping_sub(1), d ^ 0x80] {
                    for p in 0..l - 1 {
                        for order in 0..2 {
                            let mut h = vec![b'x'; l];
                            let (a, b) = if order == 0 { (d, nb) } else { (nb, d) };
                            h[p] = a;
                            h[p + 1] = b;
                            bytes_all_kinds(r, trim, &h, &[d]);
                        }
                    }
                }
            }
        }
        r.ev("planted-long-haystack");
    }));
    // very long needles (tables indexed by a narrow integer: 255/256/257, 511..513, 1000) with a failing
    // window before the match: needle = filler^(m-1) + 'y', haystack = filler^k + needle + tail
    let longn: &[usize] = if cfg.miri() { &[] } else { &[127, 128, 129, 255, 256, 257, 258, 300, 511, 512, 513, 1000] };
    rep.merge(par_for(cfg, longn.len(), |w, r| {
        let m = longn[w];
        for fill in ["x", "ñ"] {
            let body: String = fill.repeat(m - 1);
            let n = format!("{}y", body);
            for k in 0..4 {
                for tail in ["", "--", "yy"] {
                    let h = format!("{}{}{}", fill.repeat(k), n, tail);
                    pair(r, trim, &h, &n);
                    // near miss only
                    let h2 = format!("{}{}z{}", fill.repeat(k), body, tail);
                    pair(r, trim, &h2, &n);
                }
            }
            // needle that ends in the middle of a longer run, reversed structure for the r* functions
            let n2 = format!("y{}", body);
            for k in 0..3 {
                let h = format!("--{}{}", n2, fill.repeat(k));
                pair(r, trim, &h, &n2);
            }
        }
        r.ev("very-long-needles");
    }));
    if trim {
        rep.merge(whitespace(cfg));
    }
    let exh = format!(
        "all {} haystacks (<= {} chars) x {} needles (<= {} chars) over {{a,b,ñ}}; all {} byte haystacks x {} needles over {{0x61,0x62,0xFF}}; {} x {} strings over {{ñ,ó,個,倀,x}}; {} seeded random (haystack <= 64, one in eight <= 300, needle <= 8); planted: filler haystacks of every length 0..={} x needle {{ab,a,abc,ñb}} at every offset x a near miss at every earlier offset{}",
        hs.len(), hl, ns.len(), nl, bhs.len(), bns.len(), mhs.len(), mns.len(), nrand, maxl,
        if trim { "; whitespace: every byte 0..=255 as prefix/suffix/both, all strings over {\\t,\\n,\\x0B,\\x0C,\\r,' ',x,\\0} and over non-ASCII whitespace; planted runs of every length 0..=34 (thorough 70) of each ASCII whitespace byte before and after 5 bodies" } else { "" }
    );
    if trim {
        ("C05", rep, exh, "one evaluation = one konst call (starts_with/ends_with/strip_prefix/strip_suffix/trim_*_matches/trim* on str and bytes, pattern kinds &str, char, [u8], [u8;N], str-on-bytes) compared with the std method (trim_matches = trim_end_matches∘trim_start_matches; whitespace = trim_ascii*), results compared by value and position; non-trivial = distinct (haystack,needle) where the needle is a proper prefix or suffix of the haystack, or whitespace inputs where something is trimmed and something remains".into())
    } else {
        ("C04", rep, exh, "one evaluation = one konst call (find/rfind/contains/rcontains/find_skip/find_keep/rfind_skip/rfind_keep/split_once/rsplit_once on str and the bytes_* twins; pattern kinds &str, char, [u8], [u8;N], str-on-bytes, char-on-bytes) compared with str::find/rfind/contains/split_once/rsplit_once or a naive windowed search; derived results compared by value and position; reverse search with an empty pattern is not compared (unspecified); non-trivial = distinct (haystack,needle) where the needle occurs more than once, or first occurs at an offset > 0, or is self-overlapping and occurs".into())
    }
}
