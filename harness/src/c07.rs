//! C07 – chars / char_indices / char<->UTF-8/u32 conversions agree with std.
use crate::common::*;
use konst::chr as kchr;
use konst::string as kstr;

/// drive a konst iterator and the std iterator in lockstep under a front/back mask
macro_rules! lockstep {
    ($r:expr, $api:expr, $s:expr, $mask:expr, $steps:expr, $kit:expr, $sit:expr, $kfront:ident, $kback:ident, $sfront:ident, $sback:ident, |$kv:ident| $as_str:expr) => {{
        let mut k = $kit;
        let mut s = $sit;
        for step in 0..$steps {
            let front = ($mask >> step) & 1 == 0;
            let (g, w) = if front {
                (k.copy().$kfront(), s.$sfront())
            } else {
                (k.copy().$kback(), s.$sback())
            };
            $r.ev(if w.is_some() { concat!($api, ":item") } else { concat!($api, ":end") });
            match (g, w) {
                (None, None) => {}
                (Some((gi, nk)), Some(wi)) => {
                    if gi != wi {
                        $r.fail($api, $api, format!("s={:?} mask={:#b} step={} ({})", $s, $mask, step, if front { "front" } else { "back" }), format!("{:?}", gi), format!("{:?}", wi));
                        break;
                    }
                    k = nk;
                }
                (g, w) => {
                    $r.fail($api, $api, format!("s={:?} mask={:#b} step={} ({})", $s, $mask, step, if front { "front" } else { "back" }), format!("{:?}", g.map(|x| x.0)), format!("{:?}", w));
                    break;
                }
            }
            {
                let $kv = &k;
                let ga: &str = $as_str;
                let wa: &str = s.as_str();
                mon_sub_str($r, concat!($api, ".as_str"), $s, ga);
                if ga != wa || (!ga.is_empty() && off_in($s, ga) != off_in($s, wa)) {
                    $r.fail(concat!($api, ".as_str"), $api, format!("s={:?} mask={:#b} after step {}", $s, $mask, step), format!("{:?}@{:?}", ga, off_in($s, ga)), format!("{:?}@{:?}", wa, off_in($s, wa)));
                    break;
                }
            }
        }
    }};
}

/// Rev<Chars> has no as_str; wrap std's iterators so that "as_str" is available for the reversed forms too
struct RevChars<'a>(std::str::Chars<'a>);
impl<'a> RevChars<'a> {
    fn next(&mut self) -> Option<char> {
        self.0.next_back()
    }
    fn next_back(&mut self) -> Option<char> {
        self.0.next()
    }
    fn as_str(&self) -> &'a str {
        self.0.as_str()
    }
}
struct RevCharIndices<'a>(std::str::CharIndices<'a>);
impl<'a> RevCharIndices<'a> {
    fn next(&mut self) -> Option<(usize, char)> {
        self.0.next_back()
    }
    fn next_back(&mut self) -> Option<(usize, char)> {
        self.0.next()
    }
    fn as_str(&self) -> &'a str {
        self.0.as_str()
    }
}

fn check_masks(r: &mut Report, s: &str, masks: &[u64], steps: usize) {
    for &m in masks {
        lockstep!(r, "chars", s, m, steps, kstr::chars(s), s.chars(), next, next_back, next, next_back, |k| k.as_str());
        lockstep!(r, "char_indices", s, m, steps, kstr::char_indices(s), s.char_indices(), next, next_back, next, next_back, |k| k.as_str());
        lockstep!(r, "chars.rev", s, m, steps, kstr::chars(s).rev(), RevChars(s.chars()), next, next_back, next, next_back, |k| k.copy().rev().as_str());
        lockstep!(r, "char_indices.rev", s, m, steps, kstr::char_indices(s).rev(), RevCharIndices(s.char_indices()), next, next_back, next, next_back, |k| k.copy().rev().as_str());
        // rev().rev() is the original iterator
        lockstep!(r, "chars.rev.rev", s, m, steps, kstr::chars(s).rev().rev(), s.chars(), next, next_back, next, next_back, |k| k.as_str());
        lockstep!(r, "char_indices.rev.rev", s, m, steps, kstr::char_indices(s).rev().rev(), s.char_indices(), next, next_back, next, next_back, |k| k.as_str());
        if m != 0 && m != (1u64 << steps) - 1 && s.len() > s.chars().count() {
            r.nt(&(s, m));
        }
    }
}

fn conversions(cfg: &Cfg) -> Report {
    // complete enumeration, split into 16 blocks for the thread pool
    let hi: u32 = if cfg.miri() { 0x120 } else { 0x12_0000 };
    let blocks = 64usize;
    let per = (hi as usize + blocks - 1) / blocks;
    let mut rep = par_for(cfg, blocks, |b, r| {
        let lo = (b * per) as u32;
        let end = (((b + 1) * per) as u32).min(hi);
        let extra: Vec<u32> = if cfg.miri() && b == 0 {
            vec![0x7FF, 0x800, 0xFFF, 0x1000, 0xD7FF, 0xD800, 0xDFFF, 0xE000, 0xFFFF, 0x10000, 0x3FFFF, 0x40000, 0x10FFFF, 0x110000, 0x11FFFF]
        } else {
            vec![]
        };
        for n in (lo..end).chain(extra) {
            let g = kchr::from_u32(n);
            let w = char::from_u32(n);
            r.ev(if w.is_some() { "from_u32:Some" } else { "from_u32:None" });
            if g != w {
                r.fail("from_u32", "from_u32", format!("n={:#x}", n), format!("{:?}", g), format!("{:?}", w));
            }
            if let Some(c) = w {
                let enc = kchr::encode_utf8(c);
                let mut buf = [0u8; 4];
                let ws = c.encode_utf8(&mut buf);
                r.ev(match ws.len() {
                    1 => "encode_utf8:1-byte",
                    2 => "encode_utf8:2-byte",
                    3 => "encode_utf8:3-byte",
                    _ => "encode_utf8:4-byte",
                });
                if enc.as_bytes() != ws.as_bytes() {
                    r.fail("encode_utf8", "encode_utf8", format!("c=U+{:04X}", n), format!("{:?}", enc.as_bytes()), format!("{:?}", ws.as_bytes()));
                    continue;
                }
                if core::str::from_utf8(enc.as_str().as_bytes()).is_err() || enc.as_str() != &*ws {
                    r.fail("Utf8Encoded::as_str", "encode_utf8", format!("c=U+{:04X}", n), format!("{:?}", enc.as_str().as_bytes()), format!("{:?}", ws.as_bytes()));
                    continue;
                }
                // decoder round trip, front and back
                let d = kstr::chars(enc.as_str()).next().map(|x| x.0);
                r.ev("chars:decode-front");
                if d != Some(c) {
                    r.fail("chars.decode", "chars", format!("c=U+{:04X}", n), format!("{:?}", d), format!("{:?}", c));
                }
                let d = kstr::chars(enc.as_str()).next_back().map(|x| x.0);
                r.ev("chars:decode-back");
                if d != Some(c) {
                    r.fail("chars.decode_back", "chars", format!("c=U+{:04X}", n), format!("{:?}", d), format!("{:?}", c));
                }
                let d = kstr::char_indices(enc.as_str()).next_back().map(|x| x.0);
                r.ev("char_indices:decode-back");
                if d != Some((0, c)) {
                    r.fail("char_indices.decode_back", "char_indices", format!("c=U+{:04X}", n), format!("{:?}", d), format!("{:?}", (0, c)));
                }
                if n % 0x1111 == 0 || (0xD7F0..0xE010).contains(&n) {
                    r.nt(&n);
                }
            } else if n < 0x11_0010 {
                r.nt(&n);
            }
        }
    });
    if cfg.mine(0) {
        for n in [0x7FFF_FFFFu32, 0x8000_0000, u32::MAX - 1, u32::MAX, 0x10_FFFF, 0x11_0000, 0xD7FF, 0xD800, 0xDFFF, 0xE000, 0x00FF_FFFF, 0x0100_0000, 0x0011_0000 | 0x8000_0000] {
            let g = kchr::from_u32(n);
            rep.ev("from_u32:boundary");
            if g != char::from_u32(n) {
                rep.fail("from_u32", "from_u32", format!("n={:#x}", n), format!("{:?}", g), format!("{:?}", char::from_u32(n)));
            }
        }
    }
    rep
}

pub fn run(cfg: &Cfg) -> (&'static str, Report, String, String) {
    let mut rep = conversions(cfg);
    let maxc = cfg.by(2, 5, 6);
    let strings = strings_upto(&crate::c03::SIGMA4, maxc);
    rep.merge(par_for(cfg, strings.len(), |i, r| {
        let s = &strings[i];
        let steps = s.chars().count() + 2;
        let masks: Vec<u64> = (0..(1u64 << steps)).collect();
        check_masks(r, s, &masks, steps);
        if i == 200 {
            r.sample(|| format!("s={:?}: all {} front/back masks of {} steps, chars/char_indices/rev/rev.rev, as_str after every step", s, masks.len(), steps));
        }
    }));
    let mut la: Vec<&str> = LEADS.to_vec();
    la.extend(LEADS_HI3);
    la.extend(ASCII_EDGES);
    let lstrings = strings_upto(&la, cfg.by(1, 2, 3));
    rep.merge(par_for(cfg, lstrings.len(), |i, r| {
        let s = &lstrings[i];
        let steps = s.chars().count() + 2;
        let masks: Vec<u64> = (0..(1u64 << steps)).collect();
        check_masks(r, s, &masks, steps);
    }));
    let nrand = cfg.by(2, 300, 2000);
    rep.merge(par_for(cfg, nrand, |i, r| {
        let mut rng = Rng::new(cfg.seed.wrapping_mul(31_337).wrapping_add(i as u64));
        let s = random_string(&mut rng, &crate::c03::WIDE, if i % 8 == 7 { cfg.by(20, 150, 300) } else { cfg.by(8, 30, 40) });
        let steps = (s.chars().count() + 2).min(60);
        let masks: Vec<u64> = (0..cfg.by(4, 50, 200)).map(|_| rng.next() & ((1u64 << steps) - 1)).collect();
        check_masks(r, &s, &masks, steps);
        if i == 0 {
            r.sample(|| format!("random s={:?} masks={:x?}", s, &masks[..3]));
        }
    }));
    (
        "C07",
        rep,
        format!("from_u32 over every u32 in 0..{:#x} plus boundary values; encode_utf8 + decode round trip (front and back) over every char; all {} strings of <= {} chars over {{a,ñ,個,🙂}} x all front/back masks of nchars+2 steps; {} seeded random strings x random masks", if cfg.miri() { 0x3000 } else { 0x120000 }, strings.len(), maxc, nrand),
        "one evaluation = one monitored call/step: from_u32 vs char::from_u32, encode_utf8 vs char::encode_utf8, decoder round trip, and every next/next_back of chars / char_indices / their rev() and rev().rev() forms vs std (item, then as_str by value and position); non-trivial = distinct (string,mask) mixing front and back steps on a string with a multi-byte char; for conversions a sparse fixed subset of code points around the surrogate gap and the upper bound".into(),
    )
}
