//! C09 – range iteration yields exactly the values std ranges yield.
use crate::common::*;
use konst::iter::Step;
use std::fmt::Debug;
use std::ops::{Range, RangeFrom, RangeInclusive};

const CAP: usize = 8;
/// logical-step watchdog: no compared iteration yields more than 300 values
const FUEL: usize = 400;

trait Vals: Sized + Copy + PartialEq + PartialOrd + Debug + Send + Sync + 'static {
    const NAME: &'static str;
    /// boundary neighbourhood values
    fn hood() -> Vec<Self>;
    /// every value of the type when the type is small enough
    fn all() -> Option<Vec<Self>>;
    /// number of values in a..=b (saturating), for a <= b
    fn span(a: Self, b: Self) -> u128;
    /// values v with v <= MAX - CAP - 1: `v..` can be pulled CAP + 1 times without overflowing
    fn from_ok(v: Self) -> bool;
    /// v == MAX - CAP: CAP pulls are fine, the (CAP+1)-th pull computes the successor of MAX
    fn edge(v: Self) -> bool;
}

macro_rules! int_vals {
    ($($t:ident)*) => {$(
        impl Vals for $t {
            const NAME: &'static str = stringify!($t);
            fn hood() -> Vec<Self> {
                let mut v: Vec<$t> = vec![$t::MIN, $t::MIN + 1, $t::MIN + 2, $t::MAX - 2, $t::MAX - 1, $t::MAX, 0, 1, 2, 5, $t::MAX - CAP as $t, $t::MAX - CAP as $t - 1];
                #[allow(unused_comparisons)]
                if $t::MIN < 0 { v.push((0 as $t).wrapping_sub(1)); v.push((0 as $t).wrapping_sub(2)); }
                v.push($t::MAX / 2); v.push($t::MAX / 2 + 1);
                v.sort(); v.dedup(); v
            }
            fn all() -> Option<Vec<Self>> {
                if core::mem::size_of::<$t>() == 1 { Some(($t::MIN..=$t::MAX).collect()) } else { None }
            }
            fn span(a: Self, b: Self) -> u128 { (b as i128).wrapping_sub(a as i128) as u128 + 1 }
            fn from_ok(v: Self) -> bool { v <= $t::MAX - CAP as $t - 1 }
            fn edge(v: Self) -> bool { v == $t::MAX - CAP as $t }
        }
    )*};
}
int_vals!(u8 u16 u32 u64 usize i8 i16 i32 i64 isize);
// 128-bit: span computed with saturating arithmetic
macro_rules! int_vals128 {
    ($($t:ident)*) => {$(
        impl Vals for $t {
            const NAME: &'static str = stringify!($t);
            fn hood() -> Vec<Self> {
                let mut v: Vec<$t> = vec![$t::MIN, $t::MIN + 1, $t::MIN + 2, $t::MAX - 2, $t::MAX - 1, $t::MAX, 0, 1, 2, 5, $t::MAX - CAP as $t, $t::MAX - CAP as $t - 1];
                #[allow(unused_comparisons)]
                if $t::MIN < 0 { v.push((0 as $t).wrapping_sub(1)); v.push((0 as $t).wrapping_sub(2)); }
                v.sort(); v.dedup(); v
            }
            fn all() -> Option<Vec<Self>> { None }
            fn span(a: Self, b: Self) -> u128 { (b.wrapping_sub(a) as u128).saturating_add(1) }
            fn from_ok(v: Self) -> bool { v <= $t::MAX - CAP as $t - 1 }
            fn edge(v: Self) -> bool { v == $t::MAX - CAP as $t }
        }
    )*};
}
int_vals128!(u128 i128);
impl Vals for char {
    const NAME: &'static str = "char";
    fn hood() -> Vec<Self> {
        let mut v = vec!['\0', '\u{1}', '\u{2}', 'a', '\u{D7FD}', '\u{D7FE}', '\u{D7FF}', '\u{E000}', '\u{E001}', '\u{E002}', '\u{10FFFD}', '\u{10FFFE}', '\u{10FFFF}', '\u{10FFF7}', '\u{10FFF6}', '\u{D7F6}', '\u{D7F7}'];
        v.sort();
        v
    }
    fn all() -> Option<Vec<Self>> {
        None
    }
    fn span(a: Self, b: Self) -> u128 {
        (b as u128) - (a as u128) + 1
    }
    fn from_ok(v: Self) -> bool {
        (v as u32) < 0x10FF00 && !((0xD700..0xE000).contains(&(v as u32)))
    }
    fn edge(v: Self) -> bool {
        v as u32 == 0x10FFFF - CAP as u32
    }
}

fn le<T: Vals>(a: T, b: T) -> bool {
    a <= b
}

/// lockstep over next/next_back with a mask; `steps` steps
macro_rules! lock {
    ($r:expr, $api:expr, $desc:expr, $mask:expr, $steps:expr, $k:expr, $s:expr) => {{
        let mut k = $k;
        let mut s = $s;
        for step in 0..$steps {
            let front = ($mask >> step) & 1 == 0;
            let kc = k.copy();
            let g = catch(move || if front { kc.next() } else { kc.next_back() });
            let w = if front { s.next() } else { s.next_back() };
            $r.ev(if w.is_some() { concat!($api, ":item") } else { concat!($api, ":end") });
            match (g, w) {
                (Ok(None), None) => {}
                (Ok(Some((gi, nk))), Some(wi)) if gi == wi => {
                    k = nk;
                }
                (g, w) => {
                    $r.fail($api, $api, format!("{} mask={:#b} step={} ({})", $desc, $mask, step, if front { "front" } else { "back" }),
                        match g { Ok(x) => format!("{:?}", x.map(|y| y.0)), Err(()) => "<panic>".into() }, format!("{:?}", w));
                    break;
                }
            }
        }
    }};
}

struct RevI<I>(I);
impl<I: DoubleEndedIterator> RevI<I> {
    fn next(&mut self) -> Option<I::Item> {
        self.0.next_back()
    }
    fn next_back(&mut self) -> Option<I::Item> {
        self.0.next()
    }
}

fn pair<T>(r: &mut Report, a: T, b: T, full_masks: bool)
where
    T: Vals + Step,
    Range<T>: DoubleEndedIterator<Item = T> + Clone,
    RangeInclusive<T>: DoubleEndedIterator<Item = T> + Clone,
{
    let desc = format!("T={} start={:?} end={:?}", T::NAME, a, b);
    let span_inc: u128 = if le(a, b) { T::span(a, b) } else { 0 };
    let small = span_inc <= 300;

    // ---- through the macros
    if small {
        let mut g: Vec<T> = Vec::new();
        let res = catch(|| {
            konst::iter::for_each! {x in a..b => g.push(x); if g.len() > FUEL { panic!("FUEL") }}
        });
        let w: Vec<T> = (a..b).collect();
        r.ev("for_each!(a..b)");
        if res.is_err() || g != w {
            r.fail("for_each!(range)", "for_each!", desc.clone(), if res.is_err() { "<panic>".into() } else { format!("{:?}", g) }, format!("{:?}", w));
        }
        let mut g: Vec<T> = Vec::new();
        let res = catch(|| {
            konst::iter::for_each! {x in a..=b => g.push(x); if g.len() > FUEL { panic!("FUEL") }}
        });
        let w: Vec<T> = (a..=b).collect();
        r.ev("for_each!(a..=b)");
        if res.is_err() || g != w {
            r.fail("for_each!(range_inclusive)", "for_each!", desc.clone(), if res.is_err() { "<panic>".into() } else { format!("{:?}", g) }, format!("{:?}", w));
        }
        let mut g: Vec<T> = Vec::new();
        let res = catch(|| {
            konst::iter::eval!(a..b, rev(), for_each(|x| { g.push(x); if g.len() > FUEL { panic!("FUEL") } }));
        });
        let w: Vec<T> = (a..b).rev().collect();
        r.ev("eval!(a..b,rev)");
        if res.is_err() || g != w {
            r.fail("eval!(range,rev)", "eval!", desc.clone(), if res.is_err() { "<panic>".into() } else { format!("{:?}", g) }, format!("{:?}", w));
        }
        let mut g: Vec<T> = Vec::new();
        let res = catch(|| {
            konst::iter::eval!(a..=b, rev(), for_each(|x| { g.push(x); if g.len() > FUEL { panic!("FUEL") } }));
        });
        let w: Vec<T> = (a..=b).rev().collect();
        r.ev("eval!(a..=b,rev)");
        if res.is_err() || g != w {
            r.fail("eval!(range_inclusive,rev)", "eval!", desc.clone(), if res.is_err() { "<panic>".into() } else { format!("{:?}", g) }, format!("{:?}", w));
        }
        // ranges passed by reference (`&Range` / `&RangeInclusive` are iterable too)
        let (rg, ri) = (a..b, a..=b);
        let mut g: Vec<T> = Vec::new();
        let res = catch(|| {
            konst::iter::for_each! {x in &rg => g.push(x); if g.len() > FUEL { panic!("FUEL") }}
        });
        let w: Vec<T> = (a..b).collect();
        r.ev("for_each!(&(a..b))");
        if res.is_err() || g != w {
            r.fail("for_each!(&range)", "for_each!", desc.clone(), if res.is_err() { "<panic>".into() } else { format!("{:?}", g) }, format!("{:?}", w));
        }
        let mut g: Vec<T> = Vec::new();
        let res = catch(|| {
            konst::iter::eval!(&ri, rev(), for_each(|x| { g.push(x); if g.len() > FUEL { panic!("FUEL") } }));
        });
        let w: Vec<T> = (a..=b).rev().collect();
        r.ev("eval!(&(a..=b),rev)");
        if res.is_err() || g != w {
            r.fail("eval!(&range_inclusive,rev)", "eval!", desc.clone(), if res.is_err() { "<panic>".into() } else { format!("{:?}", g) }, format!("{:?}", w));
        }
        let gc = catch(|| konst::iter::eval!(a..=b, count()));
        r.ev("eval!(a..=b,count)");
        if gc != Ok((a..=b).count()) {
            r.fail("eval!(range_inclusive,count)", "eval!", desc.clone(), format!("{:?}", gc), format!("{:?}", (a..=b).count()));
        }
    } else {
        let mut g: Vec<T> = Vec::new();
        let res = catch(|| {
            konst::iter::for_each! {x in a..b, take(CAP) => g.push(x); if g.len() > FUEL { panic!("FUEL") }}
        });
        let w: Vec<T> = (a..b).take(CAP).collect();
        r.ev("for_each!(a..b,take)");
        if res.is_err() || g != w {
            r.fail("for_each!(range,take)", "for_each!", desc.clone(), if res.is_err() { "<panic>".into() } else { format!("{:?}", g) }, format!("{:?}", w));
        }
        let mut g: Vec<T> = Vec::new();
        let res = catch(|| {
            konst::iter::eval!(a..=b, rev(), take(CAP), for_each(|x| { g.push(x); if g.len() > FUEL { panic!("FUEL") } }));
        });
        let w: Vec<T> = (a..=b).rev().take(CAP).collect();
        r.ev("eval!(a..=b,rev,take)");
        if res.is_err() || g != w {
            r.fail("eval!(range_inclusive,rev,take)", "eval!", desc.clone(), if res.is_err() { "<panic>".into() } else { format!("{:?}", g) }, format!("{:?}", w));
        }
        let mut g: Vec<T> = Vec::new();
        let res = catch(|| {
            konst::iter::eval!(a..b, rev(), take(CAP), for_each(|x| { g.push(x); if g.len() > FUEL { panic!("FUEL") } }));
        });
        let w: Vec<T> = (a..b).rev().take(CAP).collect();
        r.ev("eval!(a..b,rev,take)");
        if res.is_err() || g != w {
            r.fail("eval!(range,rev,take)", "eval!", desc.clone(), if res.is_err() { "<panic>".into() } else { format!("{:?}", g) }, format!("{:?}", w));
        }
        let mut g: Vec<T> = Vec::new();
        let res = catch(|| {
            konst::iter::for_each! {x in a..=b, take(CAP) => g.push(x); if g.len() > FUEL { panic!("FUEL") }}
        });
        let w: Vec<T> = (a..=b).take(CAP).collect();
        r.ev("for_each!(a..=b,take)");
        if res.is_err() || g != w {
            r.fail("for_each!(range_inclusive,take)", "for_each!", desc.clone(), if res.is_err() { "<panic>".into() } else { format!("{:?}", g) }, format!("{:?}", w));
        }
    }

    // ---- next / next_back, mixed ends
    let steps: usize = if small { (span_inc as usize + 2).min(20) } else { 2 * CAP };
    let mut masks: Vec<u64> = vec![0, u64::MAX, 0x5555_5555_5555_5555, 0xAAAA_AAAA_AAAA_AAAA, 0x3333_3333_3333_3333, 0xF0F0_F0F0_0F0F_0F0F];
    if full_masks && span_inc <= 6 {
        masks = (0..(1u64 << steps)).collect();
    }
    for &m in &masks {
        let m = m & ((1u64 << steps) - 1);
        lock!(r, "range.next/next_back", desc, m, steps, konst::iter::into_iter!(a..b), a..b);
        lock!(r, "range_inclusive.next/next_back", desc, m, steps, konst::iter::into_iter!(a..=b), a..=b);
        lock!(r, "range.rev.next/next_back", desc, m, steps, konst::iter::into_iter!(a..b).rev(), RevI(a..b));
        lock!(r, "range_inclusive.rev.next/next_back", desc, m, steps, konst::iter::into_iter!(a..=b).rev(), RevI(a..=b));
    }
    // full exhaustion from alternating ends for small spans longer than the mask window
    if small && span_inc as usize + 2 > 20 {
        for first_front in [true, false] {
            let mut k = konst::iter::into_iter!(a..=b);
            let mut s = a..=b;
            let mut front = first_front;
            let mut n = 0;
            loop {
                let kc = k.copy();
                let g = catch(move || if front { kc.next() } else { kc.next_back() });
                let w = if front { s.next() } else { s.next_back() };
                r.ev("range_inclusive.alternate");
                match (g, w) {
                    (Ok(None), None) => break,
                    (Ok(Some((gi, nk))), Some(wi)) if gi == wi => k = nk,
                    (g, w) => {
                        r.fail("range_inclusive.alternate", "range_inclusive", format!("{} alternating step {}", desc, n), match g { Ok(x) => format!("{:?}", x.map(|y| y.0)), Err(()) => "<panic>".into() }, format!("{:?}", w));
                        break;
                    }
                }
                front = !front;
                n += 1;
            }
        }
    }
    if span_inc >= 2 {
        r.nt(&(T::NAME, format!("{:?}{:?}", a, b)));
    }
}

fn from<T>(r: &mut Report, a: T)
where
    T: Vals + Step,
    RangeFrom<T>: Iterator<Item = T>,
{
    let edge = T::edge(a);
    if !T::from_ok(a) && !edge {
        return; // the take window itself reaches the overflow: std's behaviour there is build-mode dependent, not compared
    }
    let desc = format!("T={} start={:?}..", T::NAME, a);
    let mut g: Vec<T> = Vec::new();
    let res = catch(|| {
        konst::iter::for_each! {x in a.., take(CAP) => g.push(x); if g.len() > FUEL { panic!("FUEL") }}
    });
    let w: Vec<T> = (a..).take(CAP).collect();
    r.ev(if edge { "for_each!(a..,take):start=MAX-n" } else { "for_each!(a..,take)" });
    if res.is_err() && edge && g == w {
        // all CAP values were delivered, then the DSL pulled one more item from the source, whose
        // successor computation trips konst's debug assertion (known finding K4; debug builds only)
        r.fail("K4:range_from,take(n):extra-pull-overflow", "for_each!", desc.clone(), "<panic after yielding all n values>".into(), format!("{:?}", w));
    } else if res.is_err() || g != w {
        r.fail("for_each!(range_from,take)", "for_each!", desc.clone(), if res.is_err() { "<panic>".into() } else { format!("{:?}", g) }, format!("{:?}", w));
    }
    if !edge {
        let rf = a..;
        let mut g: Vec<T> = Vec::new();
        let res = catch(|| {
            konst::iter::for_each! {x in &rf, take(CAP) => g.push(x); if g.len() > FUEL { panic!("FUEL") }}
        });
        r.ev("for_each!(&(a..),take)");
        if res.is_err() || g != w {
            r.fail("for_each!(&range_from,take)", "for_each!", desc.clone(), if res.is_err() { "<panic>".into() } else { format!("{:?}", g) }, format!("{:?}", w));
        }
        let mut g: Vec<T> = Vec::new();
        let res = catch(|| {
            konst::iter::eval!(a.., zip(0..CAP), map(|(x, _)| x), for_each(|x| { g.push(x); if g.len() > FUEL { panic!("FUEL") } }));
        });
        r.ev("eval!(a..,zip)");
        // zip pulls from the unbounded source first: one extra pull is unobservable here (start <= MAX - CAP - 1)
        if res.is_err() || g != w {
            r.fail("eval!(range_from,zip)", "eval!", desc.clone(), if res.is_err() { "<panic>".into() } else { format!("{:?}", g) }, format!("{:?}", w));
        }
    }
    let mut k = konst::iter::into_iter!(a..);
    let mut s = a..;
    for step in 0..CAP {
        let kc = k.copy();
        let g = catch(move || kc.next());
        let w = s.next();
        r.ev("range_from.next");
        match (g, w) {
            (Ok(Some((gi, nk))), Some(wi)) if gi == wi => k = nk,
            (g, w) => {
                r.fail("range_from.next", "range_from", format!("{} step {}", desc, step), match g { Ok(x) => format!("{:?}", x.map(|y| y.0)), Err(()) => "<panic>".into() }, format!("{:?}", w));
                break;
            }
        }
    }
    r.nt(&(T::NAME, "from", format!("{:?}", a)));
}

fn run_type<T>(cfg: &Cfg) -> Report
where
    T: Vals + Step,
    Range<T>: DoubleEndedIterator<Item = T> + Clone,
    RangeInclusive<T>: DoubleEndedIterator<Item = T> + Clone,
    RangeFrom<T>: Iterator<Item = T>,
{
    let mut vals: Vec<T> = match (T::all(), cfg.miri()) {
        (Some(v), false) => v,
        _ => T::hood(),
    };
    if cfg.miri() && vals.len() > 7 {
        // the interpreter costs ~10 ms per step: both ends and the middle of the boundary neighbourhood
        let n = vals.len();
        vals = [0, 1, n / 2 - 1, n / 2, n - 3, n - 2, n - 1].iter().map(|&k| vals[k]).collect();
    }
    let n = vals.len();
    par_for(cfg, n, |i, r| {
        let a = vals[i];
        for &b in &vals {
            pair(r, a, b, true);
        }
        from(r, a);
        if i == 3 {
            r.sample(|| format!("T={} start={:?} x all {} end values, e.g. {:?}", T::NAME, a, n, &vals[..vals.len().min(4)]));
        }
    })
}

/// for_range! (integer `Range` only)
fn for_range_macro(cfg: &Cfg) -> Report {
    let mut r = Report::new();
    if !cfg.mine(0) {
        return r;
    }
    macro_rules! fr {
        ($($t:ident)*) => {$(
            for a in <$t as Vals>::hood() {
                for b in <$t as Vals>::hood() {
                    let span = if a <= b { <$t as Vals>::span(a, b) } else { 0 };
                    if span > 300 { continue; }
                    let mut g: Vec<$t> = Vec::new();
                    let res = catch(|| { konst::for_range!{x in a..b => g.push(x); if g.len() > FUEL { panic!("FUEL") }} });
                    let w: Vec<$t> = (a..b).collect();
                    r.ev("for_range!");
                    if res.is_err() || g != w {
                        r.fail("for_range!", "for_range!", format!("T={} {}..{}", stringify!($t), a, b), if res.is_err() { "<panic>".into() } else { format!("{:?}", g) }, format!("{:?}", w));
                    }
                }
            }
        )*};
    }
    fr!(u8 u16 u32 u64 usize i8 i16 i32 i64 isize u128 i128);
    r
}

pub fn run(cfg: &Cfg) -> (&'static str, Report, String, String) {
    let mut rep = Report::new();
    rep.merge(run_type::<u8>(cfg));
    if !cfg.miri() {
        rep.merge(run_type::<i8>(cfg));
        rep.merge(run_type::<u16>(cfg));
        rep.merge(run_type::<i16>(cfg));
        rep.merge(run_type::<u32>(cfg));
        rep.merge(run_type::<u64>(cfg));
        rep.merge(run_type::<i64>(cfg));
        rep.merge(run_type::<usize>(cfg));
        rep.merge(run_type::<isize>(cfg));
        rep.merge(run_type::<i128>(cfg));
    }
    rep.merge(run_type::<i32>(cfg));
    rep.merge(run_type::<u128>(cfg));
    rep.merge(run_type::<char>(cfg));
    if !cfg.miri() {
        rep.merge(for_range_macro(cfg));
    }
    // char ranges across the surrogate gap, iterated completely
    if cfg.mine(1 % cfg.nshards) {
        for (a, b) in [('\u{D7F0}', '\u{E010}'), ('\u{D7FF}', '\u{E000}'), ('\u{D7FE}', '\u{E001}'), ('\u{10FF00}', '\u{10FFFF}'), ('\0', '\u{200}')] {
            pair(&mut rep, a, b, false);
            pair(&mut rep, b, a, false);
        }
    }
    (
        "C09",
        rep,
        "all 65536 (start,end) pairs of u8 and of i8; all pairs from the boundary neighbourhood {MIN..MIN+2, -2..2, 5, MAX/2, MAX/2+1, MAX-2..MAX} for the other ten integer types; char pairs from {0,1,2,'a',D7FD..D7FF,E000..E002,10FFFD..10FFFF} plus surrogate-gap spans iterated fully; start.. for every start value <= MAX-8".into(),
        "one evaluation = one macro evaluation (for_each!, eval! with rev()/take()/count(), for_range!) compared with the collected std range iterator, or one next/next_back step of the Range/RangeInclusive iterators and their rev() forms under front/back masks (all masks for spans <= 6, six fixed masks otherwise, alternating-ends exhaustion for spans > 18) and RangeFrom prefixes; a panic in konst (e.g. debug_assert / overflow) where std yields is a mismatch; non-trivial = distinct (type,start,end) with at least 2 values".into(),
    )
}

