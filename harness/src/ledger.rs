// Move/drop ledger (DESIGN.md §6/C15): an element type whose every creation, clone and drop is
// logged by id, so that "handed out or dropped exactly once" becomes a conservation check over
// an event log. Shared by the harness (mod ledger) and by generated programs (include!), hence no
// inner attributes or inner doc comments in this file.

use std::cell::{Cell, RefCell};
use std::mem::ManuallyDrop;

#[derive(Clone, Debug, PartialEq)]
pub enum Ev {
    Created(u32),
    Cloned { from: u32, id: u32 },
    Dropped(u32),
    /// payload checksum did not match when the value was dropped / inspected
    Corrupt(u32),
    /// harness marker: the API handed this element to the caller
    Received(u32),
    /// harness marker: a statement boundary (for "dropped immediately")
    Mark(&'static str),
}

thread_local! {
    static LOG: RefCell<Vec<Ev>> = const { RefCell::new(Vec::new()) };
    static NEXT_CLONE_ID: Cell<u32> = const { Cell::new(1_000_000) };
    /// when true (native runs) a second drop of the same id is recorded but the heap guard is not
    /// freed again, so the harness survives to report it; sanitizer engines run with this off so
    /// that the real double free reaches Miri / memcheck / ASan.
    static PROTECT: Cell<bool> = const { Cell::new(true) };
    static DROPPED: RefCell<std::collections::HashSet<u32>> = RefCell::new(std::collections::HashSet::new());
    /// `Tok::clone` panics when asked to clone the element with this id (panic-safety workloads)
    static PANIC_ON_CLONE: Cell<Option<u32>> = const { Cell::new(None) };
}

pub fn set_panic_on_clone(id: Option<u32>) {
    PANIC_ON_CLONE.with(|p| p.set(id));
}

pub fn set_protect(on: bool) {
    PROTECT.with(|p| p.set(on));
}
pub fn log(e: Ev) {
    LOG.with(|l| l.borrow_mut().push(e));
}
pub fn mark(m: &'static str) {
    log(Ev::Mark(m));
}
pub fn take_log() -> Vec<Ev> {
    DROPPED.with(|d| d.borrow_mut().clear());
    LOG.with(|l| std::mem::take(&mut *l.borrow_mut()))
}
/// non-destructive copy of the log from index `from`
pub fn tail(from: usize) -> Vec<Ev> {
    LOG.with(|l| {
        let l = l.borrow();
        l[from.min(l.len())..].to_vec()
    })
}
pub fn log_len() -> usize {
    LOG.with(|l| l.borrow().len())
}

fn payload_for(id: u32) -> [u8; 24] {
    let mut p = [0u8; 24];
    let mut x = id.wrapping_mul(2654435761).wrapping_add(0x9E37);
    for b in p.iter_mut() {
        x ^= x << 13;
        x ^= x >> 17;
        x ^= x << 5;
        *b = x as u8;
    }
    p
}

pub struct Tok {
    pub id: u32,
    payload: [u8; 24],
    guard: ManuallyDrop<Box<u8>>,
}

impl Tok {
    pub fn new(id: u32) -> Tok {
        log(Ev::Created(id));
        Tok { id, payload: payload_for(id), guard: ManuallyDrop::new(Box::new(id as u8)) }
    }
    /// bit-for-bit unchanged?
    pub fn intact(&self) -> bool {
        self.payload == payload_for(self.id) && **self.guard == self.id as u8
    }
    /// record that the API under test handed this element to the caller
    pub fn received(self) -> Tok {
        if !self.intact() {
            log(Ev::Corrupt(self.id));
        }
        log(Ev::Received(self.id));
        self
    }
}

impl std::fmt::Debug for Tok {
    fn fmt(&self, f: &mut std::fmt::Formatter<'_>) -> std::fmt::Result {
        write!(f, "Tok#{}", self.id)
    }
}

impl Clone for Tok {
    fn clone(&self) -> Tok {
        if PANIC_ON_CLONE.with(|p| p.get()) == Some(self.id) {
            panic!("Tok::clone: injected panic for id {}", self.id);
        }
        let id = NEXT_CLONE_ID.with(|c| {
            let v = c.get();
            c.set(v + 1);
            v
        });
        log(Ev::Cloned { from: self.id, id });
        Tok { id, payload: payload_for(id), guard: ManuallyDrop::new(Box::new(id as u8)) }
    }
}

impl Drop for Tok {
    fn drop(&mut self) {
        let first = DROPPED.with(|d| d.borrow_mut().insert(self.id));
        let protect = PROTECT.with(|p| p.get());
        if protect && (self.payload != payload_for(self.id)) {
            // not a value this ledger created (e.g. an uninitialised slot being dropped): record it and
            // do not touch the heap guard, so that a native run survives to report it
            log(Ev::Corrupt(self.id));
            log(Ev::Dropped(self.id));
            return;
        }
        if first || !protect {
            if self.payload != payload_for(self.id) {
                log(Ev::Corrupt(self.id));
            }
            log(Ev::Dropped(self.id));
            // SAFETY: dropped at most once per value in protect mode; in raw mode a duplicated
            // value frees twice on purpose (that is what the sanitizer is there to see)
            unsafe { ManuallyDrop::drop(&mut self.guard) }
        } else {
            log(Ev::Dropped(self.id));
        }
    }
}

/// A zero-sized element type with Drop (counts only).
pub struct Zdrop;
thread_local! {
    pub static ZDROPS: Cell<u64> = const { Cell::new(0) };
}
impl Drop for Zdrop {
    fn drop(&mut self) {
        ZDROPS.with(|z| z.set(z.get() + 1));
    }
}

#[derive(Debug, Default)]
pub struct Audit {
    pub created: usize,
    pub dropped: usize,
    pub received: usize,
    pub double_drops: Vec<u32>,
    pub leaked: Vec<u32>,
    pub unknown_drops: Vec<u32>,
    pub double_received: Vec<u32>,
    pub corrupt: Vec<u32>,
}

impl Audit {
    pub fn clean(&self, leaks_allowed: bool) -> bool {
        self.double_drops.is_empty() && self.unknown_drops.is_empty() && self.double_received.is_empty() && self.corrupt.is_empty() && (leaks_allowed || self.leaked.is_empty())
    }
}

/// Conservation check at quiescence: every created/cloned id dropped exactly once, handed out at
/// most once, never corrupted.
pub fn audit(log: &[Ev]) -> Audit {
    use std::collections::HashMap;
    let mut a = Audit::default();
    let mut state: HashMap<u32, (u32, u32)> = HashMap::new(); // id -> (drops, received)
    let mut order: Vec<u32> = Vec::new();
    for e in log {
        match e {
            Ev::Created(id) | Ev::Cloned { id, .. } => {
                a.created += 1;
                state.insert(*id, (0, 0));
                order.push(*id);
            }
            Ev::Dropped(id) => {
                a.dropped += 1;
                match state.get_mut(id) {
                    Some(s) => s.0 += 1,
                    None => a.unknown_drops.push(*id),
                }
            }
            Ev::Received(id) => {
                a.received += 1;
                if let Some(s) = state.get_mut(id) {
                    s.1 += 1;
                }
            }
            Ev::Corrupt(id) => a.corrupt.push(*id),
            Ev::Mark(_) => {}
        }
    }
    for id in order {
        let (d, rc) = state[&id];
        if d == 0 {
            a.leaked.push(id);
        }
        if d > 1 {
            a.double_drops.push(id);
        }
        if rc > 1 {
            a.double_received.push(id);
        }
    }
    a
}
