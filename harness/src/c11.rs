//! C11 – array-building macros return fully initialised arrays equal to std's.
//! (values vs std, early exits that are expressible in ordinary functions, builder histories;
//!  the full early-exit x position x macro matrix is in the generated programs, gen/gen_c11.py)
use crate::common::*;
use crate::ledger::{self, take_log, Tok};
use konst::array as ka;

fn double(x: u32) -> u32 {
    x.wrapping_mul(2)
}
fn mk(i: usize) -> u64 {
    (i as u64) * 3 + 1
}

fn values(cfg: &Cfg) -> Report {
    let mut r = Report::new();
    if !cfg.mine(0) {
        return r;
    }
    macro_rules! forn {
        ($($n:literal)*) => {$({
            let input: [u32; $n] = core::array::from_fn(|i| (i as u32 + 1) * 7);
            let want: [u32; $n] = input.map(|x| x.wrapping_mul(2));
            // every accepted closure syntax
            let g: [u32; $n] = ka::map!(input, |x| x.wrapping_mul(2));
            r.ev("map!:closure");
            r.eq("map!", || format!("N={} closure", $n), &g, &want);
            let g: [u32; $n] = ka::map!(input, |x: u32| x.wrapping_mul(2));
            r.ev("map!:typed-closure");
            r.eq("map!", || format!("N={} typed closure", $n), &g, &want);
            let g: [u32; $n] = ka::map!(input, |x| -> u32 { x.wrapping_mul(2) });
            r.ev("map!:ret-closure");
            r.eq("map!", || format!("N={} -> Ret closure", $n), &g, &want);
            let g: [u32; $n] = ka::map!(input, double);
            r.ev("map!:fn-path");
            r.eq("map!", || format!("N={} function path", $n), &g, &want);
            let g: [u32; $n] = ka::map_!(input, |x| x.wrapping_mul(2));
            r.ev("map_!:closure");
            r.eq("map_!", || format!("N={} closure", $n), &g, &want);
            let g: [u32; $n] = ka::map_!(input, |x: u32| -> u32 { x.wrapping_mul(2) });
            r.ev("map_!:typed-ret-closure");
            r.eq("map_!", || format!("N={} typed -> Ret closure", $n), &g, &want);
            let g: [u32; $n] = ka::map_!(input, double);
            r.ev("map_!:fn-path");
            r.eq("map_!", || format!("N={} function path", $n), &g, &want);
            // non-Copy input by value, non-Copy output
            let sin: [String; $n] = core::array::from_fn(|i| format!("s{}", i));
            let want_s: [String; $n] = sin.clone().map(|s| format!("{}!", s));
            let g: [String; $n] = ka::map_!(sin.clone(), |s| format!("{}!", s));
            r.ev("map_!:String");
            r.eq("map_!", || format!("N={} String", $n), &g, &want_s);
            // map! over a non-Copy array through a ref pattern
            let g: [usize; $n] = ka::map!(sin, |ref s| s.len());
            r.ev("map!:ref-pattern");
            r.eq("map!", || format!("N={} ref pattern", $n), &g, &core::array::from_fn(|i| format!("s{}", i).len()));
            // the input array is an ordinary expression: evaluated exactly once, like the receiver of `<[T; N]>::map`
            {
                let evals = core::cell::Cell::new(0u32);
                let mut src = || { evals.set(evals.get() + 1); input };
                let g: [u32; $n] = ka::map!(src(), |x| x.wrapping_mul(2));
                let g2: [u32; $n] = ka::map_!(src(), |x| x.wrapping_mul(2));
                let g3: [u32; $n] = ka::map!(src(), double);
                r.ev("map!:input-expression-evaluated-once");
                r.eq("map!(input expression evaluated once)", || format!("N={}", $n), &(g, g2, g3, evals.get()), &(want, want, want, 3));
            }
            // the mapper may be any callable *expression*: it is evaluated exactly once (also for N = 0), and a
            // stateful callable keeps its state across the elements, as with `<[T; N]>::map(make())`
            {
                use core::cell::Cell;
                let makes = Cell::new(0u32);
                let mk = || {
                    makes.set(makes.get() + 1);
                    let n = Cell::new(0usize);
                    move |x: u32| {
                        let i = n.get();
                        n.set(i + 1);
                        (i, x)
                    }
                };
                let w: [(usize, u32); $n] = input.map(mk());
                let g: [(usize, u32); $n] = ka::map!(input, mk());
                let g2: [(usize, u32); $n] = ka::map_!(input, mk());
                r.ev("map!:mapper-expression-evaluated-once");
                r.eq("map!(stateful mapper expression)", || format!("N={}", $n), &(g, g2, makes.get()), &(w, w, 3));
                let makes = Cell::new(0u32);
                let mk = || {
                    makes.set(makes.get() + 1);
                    let acc = Cell::new(0usize);
                    move |i: usize| {
                        acc.set(acc.get() + i);
                        acc.get()
                    }
                };
                let w: [usize; $n] = core::array::from_fn(mk());
                let g: [usize; $n] = ka::from_fn!(mk());
                let g2: [usize; $n] = ka::from_fn_!(mk());
                r.eq("from_fn!(stateful mapper expression)", || format!("N={}", $n), &(g, g2, makes.get()), &(w, w, 3));
            }
            // the index handed to the closure is a `usize`, whatever the closure does with it (a closure that
            // never pins the type must not see an `i32` by integer fallback): observe width and sign
            {
                fn bits_of<T>(_: &T) -> usize { core::mem::size_of::<T>() * 8 }
                let w: [usize; $n] = core::array::from_fn(|i| bits_of(&i));
                let g: [usize; $n] = ka::from_fn!(|i| bits_of(&i));
                let g2: [usize; $n] = ka::from_fn_!(|i| bits_of(&i));
                r.ev("from_fn!:index-type");
                r.eq("from_fn!(index is usize)", || format!("N={} |i| bits_of(&i)", $n), &(g, g2), &(w, w));
                let w: [u64; $n] = core::array::from_fn(|i| ((i + 1) << 31) as u64);
                let g: [u64; $n] = ka::from_fn!(|i| ((i + 1) << 31) as u64);
                let g2: [u64; $n] = ka::from_fn_!(|i| ((i + 1) << 31) as u64);
                r.eq("from_fn!(index is usize)", || format!("N={} |i| ((i + 1) << 31) as u64", $n), &(g, g2), &(w, w));
            }
            // from_fn
            let want_f: [u64; $n] = core::array::from_fn(|i| (i as u64) * 3 + 1);
            let g: [u64; $n] = ka::from_fn!(|i| (i as u64) * 3 + 1);
            r.ev("from_fn!:closure");
            r.eq("from_fn!", || format!("N={} closure", $n), &g, &want_f);
            let g = ka::from_fn!([u64; $n] => |i| (i as u64) * 3 + 1);
            r.ev("from_fn!:typed");
            r.eq("from_fn!", || format!("N={} [T;N] => closure", $n), &g, &want_f);
            let g: [u64; $n] = ka::from_fn!(mk);
            r.ev("from_fn!:fn-path");
            r.eq("from_fn!", || format!("N={} function path", $n), &g, &want_f);
            let g: [u64; $n] = ka::from_fn_!(|i| (i as u64) * 3 + 1);
            r.ev("from_fn_!:closure");
            r.eq("from_fn_!", || format!("N={} closure", $n), &g, &want_f);
            let g = ka::from_fn_!([u64; $n] => |i: usize| -> u64 { (i as u64) * 3 + 1 });
            r.ev("from_fn_!:typed");
            r.eq("from_fn_!", || format!("N={} [T;N] => typed closure", $n), &g, &want_f);
            let g: [u64; $n] = ka::from_fn_!(mk);
            r.ev("from_fn_!:fn-path");
            r.eq("from_fn_!", || format!("N={} function path", $n), &g, &want_f);
            let g: [Box<u32>; $n] = ka::from_fn_!(|i| Box::new(i as u32));
            r.ev("from_fn_!:Box");
            r.eq("from_fn_!", || format!("N={} Box", $n), &g, &core::array::from_fn(|i| Box::new(i as u32)));
            let g: [String; $n] = ka::from_fn!(|i| format!("x{}", i));
            r.ev("from_fn!:String");
            r.eq("from_fn!", || format!("N={} String", $n), &g, &core::array::from_fn(|i| format!("x{}", i)));
            // zero-sized element with Drop: N values produced, N dropped
            ledger::ZDROPS.with(|z| z.set(0));
            let g: [ledger::Zdrop; $n] = ka::from_fn_!(|_| ledger::Zdrop);
            drop(g);
            r.ev("from_fn_!:ZST-Drop");
            let z = ledger::ZDROPS.with(|z| z.get());
            if z != $n {
                r.fail("C11:zst-drop-count", "from_fn_!", format!("N={}", $n), format!("{} drops", z), format!("{} drops", $n));
            }
            // ledger elements: the returned array contains exactly the produced values in order
            let _ = take_log();
            let g: [Tok; $n] = ka::from_fn_!(|i| Tok::new(i as u32));
            r.ev("from_fn_!:Tok");
            if g.iter().map(|t| t.id).collect::<Vec<_>>() != (0..$n as u32).collect::<Vec<_>>() || !g.iter().all(|t| t.intact()) {
                r.fail("C11:from_fn_-contents", "from_fn_!", format!("N={} Tok", $n), format!("{:?}", g), "ids 0..N, intact".into());
            }
            drop(g);
            let _ = take_log();
            r.nt(&("values", $n));
        })*};
    }
    forn!(0 1 2 3 4 5 6 7);
    r
}

/// early exits written directly (each is also a generated program; here they run in all four
/// harness build variants and under Miri)
fn early_exits(cfg: &Cfg) -> Report {
    let mut r = Report::new();
    if !cfg.mine(0) {
        return r;
    }
    // outcome classes: "array" (refuting, unless the exit never fired), "panic", "returned" (non-local return), "loop" (fuel watchdog)
    fn classify<T>(res: Result<Option<T>, ()>, fuel_hit: bool) -> &'static str {
        match res {
            Err(()) if fuel_hit => "loop",
            Err(()) => "panic",
            Ok(None) => "returned",
            Ok(Some(_)) => "array",
        }
    }
    macro_rules! case {
        ($name:literal, $fuel:ident, $body:expr) => {{
            let $fuel = std::cell::Cell::new(0u32);
            let res = catch(|| $body);
            let class = classify(res, $fuel.get() > 1000);
            r.ev(intern(&format!("early-exit:{}", class)));
            if class == "array" {
                r.fail("C11:array-returned-after-early-exit", $name, $name.into(), "the macro yielded an array".into(), "loop, panic, compile error or non-local return".into());
            }
            r.nt(&$name);
        }};
    }
    macro_rules! tick {
        ($fuel:ident) => {{
            $fuel.set($fuel.get() + 1);
            if $fuel.get() > 1000 {
                panic!("WATCHDOG");
            }
        }};
    }
    for pos in [0u32, 1, 2] {
        case!("map! break at pos", fuel, {
            let a: [String; 3] = ka::map!([0u32, 1, 2], |x| {
                tick!(fuel);
                if x == pos {
                    break;
                }
                x.to_string()
            });
            std::mem::forget(a); // never touch possibly-unwritten slots
            Some(())
        });
        case!("map! continue at pos", fuel, {
            let a: [String; 3] = ka::map!([0u32, 1, 2], |x| {
                tick!(fuel);
                if x == pos {
                    continue;
                }
                x.to_string()
            });
            std::mem::forget(a);
            Some(())
        });
        case!("map! return at pos", fuel, {
            fn f(pos: u32) -> Option<[String; 3]> {
                Some(ka::map!([0u32, 1, 2], |x| {
                    if x == pos {
                        return None;
                    }
                    x.to_string()
                }))
            }
            f(pos).map(std::mem::forget)
        });
        case!("map! panic at pos", fuel, {
            let a: [String; 3] = ka::map!([0u32, 1, 2], |x| {
                if x == pos {
                    panic!("user panic")
                }
                x.to_string()
            });
            std::mem::forget(a);
            Some(())
        });
        case!("from_fn! break at pos", fuel, {
            let a: [String; 3] = ka::from_fn!(|i| {
                tick!(fuel);
                if i as u32 == pos {
                    break;
                }
                i.to_string()
            });
            std::mem::forget(a);
            Some(())
        });
        case!("from_fn! continue at pos", fuel, {
            let a: [String; 3] = ka::from_fn!(|i| {
                tick!(fuel);
                if i as u32 == pos {
                    continue;
                }
                i.to_string()
            });
            std::mem::forget(a);
            Some(())
        });
        case!("map_! break at pos", fuel, {
            let a: [String; 3] = ka::map_!([0u32, 1, 2], |x| {
                tick!(fuel);
                if x == pos {
                    break;
                }
                x.to_string()
            });
            std::mem::forget(a);
            Some(())
        });
        case!("map_! continue at pos", fuel, {
            let a: [String; 3] = ka::map_!([0u32, 1, 2], |x| {
                tick!(fuel);
                if x == pos {
                    continue;
                }
                x.to_string()
            });
            std::mem::forget(a);
            Some(())
        });
        case!("from_fn_! break at pos", fuel, {
            let a: [String; 3] = ka::from_fn_!(|i| {
                tick!(fuel);
                if i as u32 == pos {
                    break;
                }
                i.to_string()
            });
            std::mem::forget(a);
            Some(())
        });
        case!("from_fn_! continue at pos", fuel, {
            let a: [String; 3] = ka::from_fn_!(|i| {
                tick!(fuel);
                if i as u32 == pos {
                    continue;
                }
                i.to_string()
            });
            std::mem::forget(a);
            Some(())
        });
        case!("from_fn_! return at pos", fuel, {
            fn f(pos: u32) -> Option<[String; 3]> {
                Some(ka::from_fn_!(|i| {
                    if i as u32 == pos {
                        return None;
                    }
                    i.to_string()
                }))
            }
            f(pos).map(std::mem::forget)
        });
    }
    // length 1: break on the only (= last) element
    case!("map! break, N=1", fuel, {
        let a: [String; 1] = ka::map!([7u8], |_x| -> String {
            tick!(fuel);
            break
        });
        std::mem::forget(a);
        Some(())
    });
    case!("from_fn! break, N=1", fuel, {
        let a: [String; 1] = ka::from_fn!(|_i| -> String {
            tick!(fuel);
            break
        });
        std::mem::forget(a);
        Some(())
    });
    case!("map_! break, N=1", fuel, {
        let a: [String; 1] = ka::map_!([7u8], |_x| -> String {
            tick!(fuel);
            break
        });
        std::mem::forget(a);
        Some(())
    });
    r
}

pub fn run(cfg: &Cfg) -> (&'static str, Report, String, String) {
    ledger::set_protect(!(cfg.miri() || std::env::var_os("KV_RAW_DROPS").is_some()));
    let mut rep = values(cfg);
    rep.merge(early_exits(cfg));
    rep.merge(crate::c15::builder_histories(cfg, true));
    (
        "C11",
        rep,
        format!("map!/map_!/from_fn!/from_fn_! for N in 0..=7 in every accepted closure syntax (closure, typed closure, -> Ret block, function path, ref pattern) over u32/u64/String/Box/ZST-with-Drop/ledger elements; break/continue/return/panic inside the closure at every position of a length-3 array and on a length-1 array; all ArrayBuilder histories up to depth N+{} for N in 0..={} (push/as_slice/as_mut_slice/len/is_full/clone, build or drop, over- and under-filling)", cfg.by(1, 3, 3), cfg.by(2, 3, 4)),
        "one evaluation = one macro evaluation compared with <[T;N]>::map / core::array::from_fn, one early-exit program classified as loop (logical-step watchdog) / panic / non-local return / array (the refuting class), or one ArrayBuilder operation checked against the sequential model (build succeeds iff exactly N pushes and returns them in order) plus the ledger audit; non-trivial = each (macro, exit kind, position) program, each N for values, builder histories whose number of pushes differs from N".into(),
    )
}
