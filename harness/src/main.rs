//! Runtime-monitor harness for the konst properties (DESIGN.md §2/E1, E2).
//!
//! usage: kv_harness <sub> [--tier quick|thorough|miri] [--seed N] [--shard I/N]
//!                         [--threads N] [--out FILE] [--only KEY]
//!
//! Every sub-command drives the real konst functions over an enumerated + seeded random
//! workload, runs the reference-model / boundary / ledger monitors on every call and
//! writes a JSON event summary. Exit status: 0 = ran to completion (failures, if any,
//! are in the JSON), 3 = usage error. Verdicts are made by /verif/check.

mod common;
#[allow(dead_code)]
mod ledger;

mod c02;
mod c03;
mod c04;
mod c06;
mod c07;
mod c08;
mod c09;
mod c11;
mod c12;
mod c13;
mod c15;
mod c16;
mod c20;
mod c01;

use common::*;

fn main() {
    let args: Vec<String> = std::env::args().collect();
    if args.len() < 2 {
        eprintln!("usage: kv_harness <sub> [--tier T] [--seed N] [--shard I/N] [--threads N] [--out FILE]");
        std::process::exit(3);
    }
    let sub = args[1].clone();
    let mut cfg = Cfg {
        tier: Tier::Quick,
        seed: 1,
        shard: 0,
        nshards: 1,
        threads: if cfg!(miri) { 1 } else { std::thread::available_parallelism().map(|n| n.get()).unwrap_or(4) },
        only: None,
    };
    let mut out: Option<String> = None;
    let mut i = 2;
    while i < args.len() {
        let a = args[i].as_str();
        let v = args.get(i + 1).cloned().unwrap_or_default();
        match a {
            "--tier" => {
                cfg.tier = match v.as_str() {
                    "quick" => Tier::Quick,
                    "thorough" => Tier::Thorough,
                    "miri" => Tier::Miri,
                    _ => {
                        eprintln!("bad tier");
                        std::process::exit(3)
                    }
                }
            }
            "--seed" => cfg.seed = v.parse().expect("seed"),
            "--shard" => {
                let (a, b) = v.split_once('/').expect("shard I/N");
                cfg.shard = a.parse().unwrap();
                cfg.nshards = b.parse().unwrap();
            }
            "--threads" => cfg.threads = v.parse().expect("threads"),
            "--out" => out = Some(v),
            "--only" => cfg.only = Some(v),
            _ => {
                eprintln!("unknown arg {}", a);
                std::process::exit(3)
            }
        }
        i += 2;
    }
    silence_panics();
    if std::env::var_os("KV_TRACE").is_some() {
        common::TRACE.store(true, std::sync::atomic::Ordering::Relaxed);
    }

    // A panic that escapes from the parts of a workload that run on the main thread without a catcher ends the
    // workload. If it was raised inside konst (an operation that is total for every input panicked), that is an
    // observation about the code under test: it is reported as a failure of the sub-command instead of taking
    // the process down (which the driver could only call INCONCLUSIVE). Any other panic is a harness bug.
    let names: (&'static str, &'static str) = match sub.as_str() {
        "c01" => ("C01", "c01"), "c02" => ("C02", "c02"), "c03" => ("C03", "c03"), "c04" => ("C04", "c04"), "c05" => ("C05", "c05"),
        "c06" => ("C06", "c06"), "c07" => ("C07", "c07"), "c08" => ("C08", "c08"), "c09" => ("C09", "c09"), "c11" => ("C11", "c11"),
        "c12" => ("C12", "c12"), "c13" => ("C13", "c13"), "c14" => ("C14", "c14"), "c15" => ("C15", "c15"), "c16" => ("C16", "c16"),
        "c20" => ("C20", "c20"),
        _ => ("?", "?"),
    };
    let run_all = || -> (&'static str, Report, String, String) { match sub.as_str() {
        "c01" => c01::run(&cfg),
        "c02" => c02::run(&cfg),
        "c03" => c03::run(&cfg),
        "c04" => c04::run(&cfg, false),
        "c05" => c04::run(&cfg, true),
        "c06" => c06::run(&cfg),
        "c07" => c07::run(&cfg),
        "c08" => c08::run(&cfg),
        "c09" => c09::run(&cfg),
        "c11" => c11::run(&cfg),
        "c12" => c12::run(&cfg),
        "c13" => c13::run(&cfg, false),
        "c14" => c13::run(&cfg, true),
        "c15" => c15::run(&cfg),
        "c16" => c16::run(&cfg),
        "c20" => c20::run(&cfg),
        _ => {
            eprintln!("unknown sub-command {}", sub);
            std::process::exit(3)
        }
    } };
    let (prop, rep, exhaustive, rule) = match std::panic::catch_unwind(std::panic::AssertUnwindSafe(run_all)) {
        Ok(x) => x,
        Err(payload) => {
            let last = common::last_panic();
            if last.contains("/konst/src/") || last.contains("/konst_kernel/src/") || last.contains("/konst_proc_macros/src/") {
                let mut r = Report::new();
                r.fail("unexpected-panic-inside-konst", "konst", format!("sub-command {} (main-thread part of the workload; the rest of the workload did not run)", sub), format!("panicked: {}", last), "no panic: the operation is defined for every input".into());
                // enough observations for the driver not to call the run empty
                r.evals += 1;
                (names.0, r, "workload aborted by a panic inside konst".to_string(), "workload aborted by a panic inside konst".to_string())
            } else {
                std::panic::resume_unwind(payload)
            }
        }
    };
    let mut rep = rep;
    for m in take_ub_check_panics() {
        rep.fail("C01:std-ub-check-panic", "std ub_checks", format!("sub-command {}", sub), m, "no violated unsafe precondition".into());
    }
    let json = rep.to_json(prop, &sub, &cfg, &exhaustive, &rule);
    match out {
        Some(p) => std::fs::write(&p, json).expect("write --out"),
        None => print!("{}", json),
    }
}
