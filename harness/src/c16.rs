//! C16 – comparison functions and macros agree with std equality and ordering.
use crate::common::*;
use core::cmp::Ordering;
use core::marker::{PhantomData, PhantomPinned};
use core::num::*;
use konst::{assertc_eq, assertc_ne, const_cmp, const_cmp_for, const_eq, const_eq_for};

fn ck_eq(r: &mut Report, api: &'static str, input: impl Fn() -> String, got: bool, want: bool) {
    r.ev(api);
    if got != want {
        r.fail(api, api, input(), format!("{}", got), format!("{}", want));
    }
}
fn ck_ord(r: &mut Report, api: &'static str, input: impl Fn() -> String, got: Ordering, want: Ordering) {
    r.ev(api);
    if got != want {
        r.fail(api, api, input(), format!("{:?}", got), format!("{:?}", want));
    }
}

/// order laws evaluated on konst's own results
fn laws<T: std::fmt::Debug>(r: &mut Report, api: &'static str, xs: &[T], cmp: &dyn Fn(&T, &T) -> Ordering, eq: &dyn Fn(&T, &T) -> bool) {
    let n = xs.len();
    let mut m = vec![Ordering::Equal; n * n];
    for i in 0..n {
        for j in 0..n {
            m[i * n + j] = cmp(&xs[i], &xs[j]);
        }
    }
    for i in 0..n {
        for j in 0..n {
            r.ev("law:antisymmetry+eq-consistency");
            if m[i * n + j] != m[j * n + i].reverse() {
                r.fail("law:antisymmetry", api, format!("a={:?} b={:?}", xs[i], xs[j]), format!("cmp(a,b)={:?} cmp(b,a)={:?}", m[i * n + j], m[j * n + i]), "cmp(a,b) == cmp(b,a).reverse()".into());
            }
            if (m[i * n + j] == Ordering::Equal) != eq(&xs[i], &xs[j]) {
                r.fail("law:cmp-equal-iff-eq", api, format!("a={:?} b={:?}", xs[i], xs[j]), format!("cmp={:?} eq={}", m[i * n + j], eq(&xs[i], &xs[j])), "cmp == Equal exactly when eq".into());
            }
            for k in 0..n {
                if m[i * n + j] != Ordering::Greater && m[j * n + k] != Ordering::Greater {
                    r.ev("law:transitivity");
                    if m[i * n + k] == Ordering::Greater {
                        r.fail("law:transitivity", api, format!("a={:?} b={:?} c={:?}", xs[i], xs[j], xs[k]), "a<=b, b<=c but a>c".into(), "a<=c".into());
                    }
                }
            }
        }
    }
}

fn slices_upto<T: Copy>(vals: &[T], maxlen: usize) -> Vec<Vec<T>> {
    let mut out = vec![vec![]];
    let mut prev: Vec<Vec<T>> = vec![vec![]];
    for _ in 0..maxlen {
        let mut cur = Vec::new();
        for p in &prev {
            for v in vals {
                let mut x = p.clone();
                x.push(*v);
                cur.push(x);
            }
        }
        out.extend(cur.iter().cloned());
        prev = cur;
    }
    out
}

macro_rules! prim {
    ($r:expr, $cfg:expr, $t:ty, $name:literal, $vals:expr, $three:expr,
     $cmp:ident, $eqo:ident, $cmpo:ident, $eqs:ident, $cmps:ident, $eqos:ident, $cmpos:ident) => {{
        use konst::primitive::cmp::{$cmp, $cmpo, $eqo};
        use konst::slice::cmp::{$cmps, $cmpos, $eqos, $eqs};
        let vals: Vec<$t> = $vals;
        let r: &mut Report = $r;
        for &a in &vals {
            for &b in &vals {
                let inp = || format!("T={} a={:?} b={:?}", $name, a, b);
                ck_ord(r, concat!("cmp_", $name), inp, $cmp(a, b), a.cmp(&b));
                ck_eq(r, "const_eq!(prim)", inp, const_eq!(a, b), a == b);
                ck_ord(r, "const_cmp!(prim)", inp, const_cmp!(a, b), a.cmp(&b));
                r.nt(&($name, format!("{:?}{:?}", a, b)));
                for (oa, ob) in [(Some(a), Some(b)), (Some(a), None), (None, Some(b)), (None, None)] {
                    let inp = || format!("T=Option<{}> a={:?} b={:?}", $name, oa, ob);
                    ck_eq(r, concat!("eq_option_", $name), inp, $eqo(oa, ob), oa == ob);
                    ck_ord(r, concat!("cmp_option_", $name), inp, $cmpo(oa, ob), oa.cmp(&ob));
                    ck_eq(r, "const_eq!(option)", inp, const_eq!(oa, ob), oa == ob);
                    ck_ord(r, "const_cmp!(option)", inp, const_cmp!(oa, ob), oa.cmp(&ob));
                    ck_eq(r, "const_eq_for!(option)", inp, const_eq_for!(option; oa, ob), oa == ob);
                    ck_eq(r, "const_eq_for!(option;|a,b|)", inp, const_eq_for!(option; oa, ob, |x, y| *x == *y), oa == ob);
                    ck_ord(r, "const_cmp_for!(option)", inp, const_cmp_for!(option; oa, ob), oa.cmp(&ob));
                    ck_ord(r, "const_cmp_for!(option;|a,b|)", inp, const_cmp_for!(option; oa, ob, |x, y| $cmp(*x, *y)), oa.cmp(&ob));
                }
                // arrays of length 2
                for &c in &$three {
                    let (x, y): ([$t; 2], [$t; 2]) = ([a, c], [b, c]);
                    let inp = || format!("T=[{};2] a={:?} b={:?}", $name, x, y);
                    ck_eq(r, "const_eq!(array)", inp, const_eq!(x, y), x == y);
                    ck_ord(r, "const_cmp!(array)", inp, const_cmp!(x, y), x.cmp(&y));
                    let (x, y): ([$t; 2], [$t; 2]) = ([c, a], [c, b]);
                    ck_eq(r, "const_eq!(array)", inp, const_eq!(x, y), x == y);
                    ck_ord(r, "const_cmp!(array)", inp, const_cmp!(x, y), x.cmp(&y));
                }
            }
        }
        let three: [$t; 3] = $three;
        let sl: Vec<Vec<$t>> = slices_upto(&three, $cfg.by(2, 3, 4));
        for a in &sl {
            for b in &sl {
                let (a, b): (&[$t], &[$t]) = (a, b);
                let inp = || format!("T=[{}] a={:?} b={:?}", $name, a, b);
                ck_eq(r, concat!("eq_slice_", $name), inp, $eqs(a, b), a == b);
                ck_ord(r, concat!("cmp_slice_", $name), inp, $cmps(a, b), a.cmp(b));
                ck_eq(r, "const_eq!(slice)", inp, const_eq!(a, b), a == b);
                ck_ord(r, "const_cmp!(slice)", inp, const_cmp!(a, b), a.cmp(b));
                ck_eq(r, "const_eq_for!(slice)", inp, const_eq_for!(slice; a, b), a == b);
                ck_eq(r, "const_eq_for!(slice;|a|key)", inp, const_eq_for!(slice; a, b, |x| *x), a == b);
                ck_eq(r, "const_eq_for!(slice;|a,b|)", inp, const_eq_for!(slice; a, b, |x, y| *x == *y), a == b);
                ck_ord(r, "const_cmp_for!(slice)", inp, const_cmp_for!(slice; a, b), a.cmp(b));
                ck_ord(r, "const_cmp_for!(slice;|a|key)", inp, const_cmp_for!(slice; a, b, |x| *x), a.cmp(b));
                ck_ord(r, "const_cmp_for!(slice;|a,b|)", inp, const_cmp_for!(slice; a, b, |x, y| $cmp(*x, *y)), a.cmp(b));
                if a.len() != b.len() && !a.is_empty() && !b.is_empty() && a[0] != b[0] {
                    r.nt(&($name, format!("{:?}|{:?}", a, b)));
                }
                for (oa, ob) in [(Some(a), Some(b)), (Some(a), None), (None, Some(b))] {
                    let inp = || format!("T=Option<&[{}]> a={:?} b={:?}", $name, oa, ob);
                    ck_eq(r, concat!("eq_option_slice_", $name), inp, $eqos(oa, ob), oa == ob);
                    ck_ord(r, concat!("cmp_option_slice_", $name), inp, $cmpos(oa, ob), oa.cmp(&ob));
                }
            }
        }
        laws(r, concat!("cmp_slice_", $name), &sl, &|a, b| $cmps(a, b), &|a, b| $eqs(a, b));
        laws(r, concat!("cmp_", $name), &vals, &|a, b| $cmp(*a, *b), &|a, b| const_eq!(*a, *b));
    }};
}

macro_rules! int_vals {
    ($t:ty) => {{
        let mut v: Vec<$t> = vec![<$t>::MIN, <$t>::MIN + 1, 0, 1, <$t>::MAX - 1, <$t>::MAX, 2, 100];
        #[allow(unused_comparisons)]
        if <$t>::MIN < 0 {
            v.push((0 as $t).wrapping_sub(1));
        }
        v.sort();
        v.dedup();
        v
    }};
}

macro_rules! nonzero {
    ($r:expr, $(($t:ident, $prim:ty, $eq:ident, $cmp:ident, $eqo:ident, $cmpo:ident)),*) => {$({
        use konst::nonzero::cmp::{$eq, $cmp, $eqo, $cmpo};
        let vals: Vec<$t> = int_vals!($prim).into_iter().filter_map(<$t>::new).collect();
        for &a in &vals { for &b in &vals {
            let inp = || format!("T={} a={:?} b={:?}", stringify!($t), a, b);
            ck_eq($r, concat!(stringify!($eq)), inp, $eq(a, b), a == b);
            ck_ord($r, concat!(stringify!($cmp)), inp, $cmp(a, b), a.cmp(&b));
            ck_eq($r, "const_eq!(nonzero)", inp, const_eq!(a, b), a == b);
            ck_ord($r, "const_cmp!(nonzero)", inp, const_cmp!(a, b), a.cmp(&b));
            $r.nt(&(stringify!($t), format!("{:?}{:?}", a, b)));
            for (oa, ob) in [(Some(a), Some(b)), (Some(a), None), (None, Some(b)), (None, None)] {
                let inp = || format!("T=Option<{}> a={:?} b={:?}", stringify!($t), oa, ob);
                ck_eq($r, concat!(stringify!($eqo)), inp, $eqo(oa, ob), oa == ob);
                ck_ord($r, concat!(stringify!($cmpo)), inp, $cmpo(oa, ob), oa.cmp(&ob));
                ck_eq($r, "const_eq!(option nonzero)", inp, const_eq!(oa, ob), oa == ob);
                ck_ord($r, "const_cmp!(option nonzero)", inp, const_cmp!(oa, ob), oa.cmp(&ob));
            }
        }}
        laws($r, stringify!($cmp), &vals, &|a, b| $cmp(*a, *b), &|a, b| $eq(*a, *b));
    })*};
}

macro_rules! ranges {
    ($r:expr, $(($t:ty, $vals:expr, $eqr:ident, $eqri:ident)),*) => {$({
        use konst::range::cmp::{$eqr, $eqri};
        let vals: Vec<$t> = $vals;
        for &a in &vals { for &b in &vals { for &c in &vals { for &d in &vals {
            let (x, y) = (a..b, c..d);
            let inp = || format!("T=Range<{}> a={:?} b={:?}", stringify!($t), x, y);
            ck_eq($r, stringify!($eqr), inp, $eqr(&x, &y), x == y);
            ck_eq($r, "const_eq!(range)", inp, const_eq!(x, y), x == y);
            ck_eq($r, "const_eq_for!(range)", inp, const_eq_for!(range; x, y), x == y);
            ck_eq($r, "const_eq_for!(range;|a|key)", inp, const_eq_for!(range; x, y, |v| *v), x == y);
            ck_eq($r, "const_eq_for!(range;|a,b|)", inp, const_eq_for!(range; x, y, |v, w| *v == *w), x == y);
            let (x, y) = (a..=b, c..=d);
            let inp = || format!("T=RangeInclusive<{}> a={:?} b={:?}", stringify!($t), x, y);
            ck_eq($r, stringify!($eqri), inp, $eqri(&x, &y), x == y);
            ck_eq($r, "const_eq!(range_inclusive)", inp, const_eq!(x, y), x == y);
            ck_eq($r, "const_eq_for!(range_inclusive)", inp, const_eq_for!(range_inclusive; x, y), x == y);
            ck_eq($r, "const_eq_for!(range_inclusive;|a|key)", inp, const_eq_for!(range_inclusive; x, y, |v| **v), x == y);
            ck_eq($r, "const_eq_for!(range_inclusive;|a,b|)", inp, const_eq_for!(range_inclusive; x, y, |v, w| **v == **w), x == y);
            if a == c && b != d { $r.nt(&(stringify!($t), format!("{:?}{:?}", x, y))); }
        }}}}
    })*};
}

fn strings(r: &mut Report, cfg: &Cfg) {
    let ss = strings_upto(&["a", "b", "ñ", "\u{10FFFF}"], cfg.by(2, 3, 4));
    let ss: Vec<&str> = ss.iter().map(|x| x.as_str()).collect();
    for &a in &ss {
        for &b in &ss {
            let inp = || format!("T=&str a={:?} b={:?}", a, b);
            ck_eq(r, "eq_str", inp, konst::eq_str(a, b), a == b);
            ck_ord(r, "cmp_str", inp, konst::cmp_str(a, b), a.cmp(b));
            ck_eq(r, "const_eq!(str)", inp, const_eq!(a, b), a == b);
            ck_ord(r, "const_cmp!(str)", inp, const_cmp!(a, b), a.cmp(b));
            ck_eq(r, "eq_bytes(str bytes)", inp, konst::slice::eq_bytes(a.as_bytes(), b.as_bytes()), a == b);
            ck_ord(r, "cmp_bytes(str bytes)", inp, konst::slice::cmp_bytes(a.as_bytes(), b.as_bytes()), a.as_bytes().cmp(b.as_bytes()));
            if a.len() != b.len() && !a.is_empty() && !b.is_empty() {
                r.nt(&("str", a, b));
            }
            for (oa, ob) in [(Some(a), Some(b)), (Some(a), None), (None, Some(b)), (None, None)] {
                let inp = || format!("T=Option<&str> a={:?} b={:?}", oa, ob);
                ck_eq(r, "eq_option_str", inp, konst::eq_option_str(oa, ob), oa == ob);
                ck_ord(r, "cmp_option_str", inp, konst::cmp_option_str(oa, ob), oa.cmp(&ob));
                let (ba, bb) = (oa.map(|x| x.as_bytes()), ob.map(|x| x.as_bytes()));
                ck_eq(r, "eq_option_bytes", inp, konst::slice::eq_option_bytes(ba, bb), ba == bb);
                ck_ord(r, "cmp_option_bytes", inp, konst::slice::cmp_option_bytes(ba, bb), ba.cmp(&bb));
            }
        }
    }
    laws(r, "cmp_str", &ss, &|a, b| konst::cmp_str(a, b), &|a, b| konst::eq_str(a, b));
    // slices of strings / of byte slices
    let elems = ["", "a", "ab", "b", "ñ"];
    let sl = slices_upto(&elems, cfg.by(2, 2, 3));
    for a in &sl {
        for b in &sl {
            let (a, b): (&[&str], &[&str]) = (a, b);
            let inp = || format!("T=[&str] a={:?} b={:?}", a, b);
            ck_eq(r, "eq_slice_str", inp, konst::slice::cmp::eq_slice_str(a, b), a == b);
            ck_ord(r, "cmp_slice_str", inp, konst::slice::cmp::cmp_slice_str(a, b), a.cmp(b));
            ck_eq(r, "const_eq!([&str])", inp, const_eq!(a, b), a == b);
            ck_ord(r, "const_cmp!([&str])", inp, const_cmp!(a, b), a.cmp(b));
            ck_eq(r, "const_eq_for!(slice;path)", inp, const_eq_for!(slice; a, b, konst::eq_str), a == b);
            ck_ord(r, "const_cmp_for!(slice;path)", inp, const_cmp_for!(slice; a, b, konst::cmp_str), a.cmp(b));
            let ab: Vec<&[u8]> = a.iter().map(|x| x.as_bytes()).collect();
            let bb: Vec<&[u8]> = b.iter().map(|x| x.as_bytes()).collect();
            let (ab, bb): (&[&[u8]], &[&[u8]]) = (&ab, &bb);
            ck_eq(r, "eq_slice_bytes", inp, konst::slice::cmp::eq_slice_bytes(ab, bb), ab == bb);
            ck_ord(r, "cmp_slice_bytes", inp, konst::slice::cmp::cmp_slice_bytes(ab, bb), ab.cmp(bb));
            if a.len() != b.len() && !a.is_empty() && !b.is_empty() && a[0] != b[0] {
                r.nt(&("[&str]", format!("{:?}{:?}", a, b)));
            }
        }
    }
    laws(r, "cmp_slice_str", &sl, &|a, b| konst::slice::cmp::cmp_slice_str(a, b), &|a, b| konst::slice::cmp::eq_slice_str(a, b));
}

/// long operands that differ late (or only in length): block-wise comparison refactors
fn long_operands(r: &mut Report, cfg: &Cfg) {
    let lens: &[usize] = if cfg.miri() { &[9, 33] } else { &[7, 8, 9, 15, 16, 17, 31, 32, 33, 63, 64, 65, 70, 255, 256, 257] };
    let mut rng = Rng::new(cfg.seed ^ 0xC16);
    for &len in lens {
        let a8: Vec<u8> = (0..len).map(|_| b'a' + (rng.below(3) as u8)).collect();
        let a64: Vec<u64> = a8.iter().map(|&x| (x as u64) << 40).collect();
        let mut variants: Vec<Vec<u8>> = vec![a8.clone()];
        for p in [0usize, 1, 6, 7, 8, 14, 15, 16, 30, 31, 32, 62, 63, 64, len / 2, len.saturating_sub(2), len - 1] {
            if p < len {
                for delta in [1i16, -1] {
                    let mut b = a8.clone();
                    b[p] = (b[p] as i16 + delta) as u8;
                    variants.push(b);
                }
            }
        }
        let mut t = a8.clone();
        t.pop();
        variants.push(t);
        let mut e = a8.clone();
        e.push(b'a');
        variants.push(e);
        for x in &variants {
            for y in &variants {
                let (x, y): (&[u8], &[u8]) = (x, y);
                let inp = || format!("T=[u8] long len={} a={:?} b={:?}", len, String::from_utf8_lossy(x), String::from_utf8_lossy(y));
                ck_eq(r, "eq_bytes(long)", inp, konst::slice::eq_bytes(x, y), x == y);
                ck_ord(r, "cmp_bytes(long)", inp, konst::slice::cmp_bytes(x, y), x.cmp(y));
                ck_eq(r, "const_eq!(long slice)", inp, const_eq!(x, y), x == y);
                ck_ord(r, "const_cmp!(long slice)", inp, const_cmp!(x, y), x.cmp(y));
                let (sx, sy) = (core::str::from_utf8(x).unwrap(), core::str::from_utf8(y).unwrap());
                ck_eq(r, "eq_str(long)", inp, konst::eq_str(sx, sy), sx == sy);
                ck_ord(r, "cmp_str(long)", inp, konst::cmp_str(sx, sy), sx.cmp(sy));
                let x64: Vec<u64> = x.iter().map(|&v| (v as u64) << 40).collect();
                let y64: Vec<u64> = y.iter().map(|&v| (v as u64) << 40).collect();
                ck_eq(r, "eq_slice_u64(long)", inp, konst::slice::cmp::eq_slice_u64(&x64, &y64), x64 == y64);
                ck_ord(r, "cmp_slice_u64(long)", inp, konst::slice::cmp::cmp_slice_u64(&x64, &y64), x64.cmp(&y64));
                if x != y {
                    r.nt(&("long", len, x, y));
                }
            }
        }
        let _ = a64;
    }
}

fn others(r: &mut Report) {
    use konst::other::cmp::*;
    let os = [Ordering::Less, Ordering::Equal, Ordering::Greater];
    for a in os {
        for b in os {
            let inp = || format!("T=Ordering a={:?} b={:?}", a, b);
            ck_eq(r, "eq_ordering", inp, eq_ordering(a, b), a == b);
            ck_ord(r, "cmp_ordering", inp, cmp_ordering(a, b), a.cmp(&b));
            ck_eq(r, "const_eq!(ordering)", inp, const_eq!(a, b), a == b);
            ck_ord(r, "const_cmp!(ordering)", inp, const_cmp!(a, b), a.cmp(&b));
            for (oa, ob) in [(Some(a), Some(b)), (Some(a), None), (None, Some(b)), (None, None)] {
                let inp = || format!("T=Option<Ordering> a={:?} b={:?}", oa, ob);
                ck_eq(r, "eq_option_ordering", inp, eq_option_ordering(oa, ob), oa == ob);
                ck_ord(r, "cmp_option_ordering", inp, cmp_option_ordering(oa, ob), oa.cmp(&ob));
            }
        }
    }
    let (p, q) = (PhantomData::<u8>, PhantomData::<u8>);
    ck_eq(r, "eq_phantomdata", || "PhantomData".into(), eq_phantomdata(p, q), p == q);
    ck_ord(r, "cmp_phantomdata", || "PhantomData".into(), cmp_phantomdata(p, q), p.cmp(&q));
    ck_eq(r, "eq_phantompinned", || "PhantomPinned".into(), eq_phantompinned(PhantomPinned, PhantomPinned), PhantomPinned == PhantomPinned);
    ck_ord(r, "cmp_phantompinned", || "PhantomPinned".into(), cmp_phantompinned(PhantomPinned, PhantomPinned), PhantomPinned.cmp(&PhantomPinned));
}

fn asserts(r: &mut Report) {
    for a in [0u8, 1, 255] {
        for b in [0u8, 1, 255] {
            let g = catch(|| assertc_eq!(a, b)).is_err();
            ck_eq(r, "assertc_eq!(u8) panics", || format!("a={} b={}", a, b), g, a != b);
            let g = catch(|| assertc_ne!(a, b)).is_err();
            ck_eq(r, "assertc_ne!(u8) panics", || format!("a={} b={}", a, b), g, a == b);
        }
    }
    for a in ["", "a", "ab", "ñ"] {
        for b in ["", "a", "ab", "ñ"] {
            let g = catch(|| assertc_eq!(a, b)).is_err();
            ck_eq(r, "assertc_eq!(str) panics", || format!("a={:?} b={:?}", a, b), g, a != b);
            let g = catch(|| assertc_ne!(a, b, "msg ", a)).is_err();
            ck_eq(r, "assertc_ne!(str) panics", || format!("a={:?} b={:?}", a, b), g, a == b);
        }
    }
    for (a, b) in [('a', 'a'), ('a', 'ñ'), ('\u{10FFFF}', '\0')] {
        let g = catch(|| assertc_eq!(a, b)).is_err();
        ck_eq(r, "assertc_eq!(char) panics", || format!("a={:?} b={:?}", a, b), g, a != b);
        let g = catch(|| assertc_ne!(a, b)).is_err();
        ck_eq(r, "assertc_ne!(char) panics", || format!("a={:?} b={:?}", a, b), g, a == b);
    }
}

/// the operands of the comparison macros are ordinary expressions: each is evaluated exactly once
/// (`a == b` / `a.cmp(&b)` evaluate each operand once), whatever the macro does with the value
fn argument_expressions(r: &mut Report) {
    use core::cell::Cell;
    // the second operand of every pair below goes through `t2`: the trace of `op(tk(a), t2(b))` is 12
    fn tk<T>(c: &Cell<u32>, v: T) -> T {
        c.set(c.get() * 10 + 1);
        v
    }
    fn t2<T>(c: &Cell<u32>, v: T) -> T {
        c.set(c.get() * 10 + 2);
        v
    }
    macro_rules! once {
        ($name:expr, $c:ident, $k:expr, $s:expr) => {{
            let $c = Cell::new(0u32);
            let k = ($k, $c.get());
            let $c = Cell::new(0u32);
            let s = ($s, $c.get());
            r.ev("operand-expressions-evaluated-once-in-order");
            r.eq($name, || "side-effecting operand expressions".to_string(), &k, &s);
        }};
    }
    for (a, b) in [(1u32, 2u32), (2, 2), (3, 2)] {
        once!("const_eq!(operands once)", c, const_eq!(tk(&c, a), t2(&c, b)), tk(&c, a) == t2(&c, b));
        once!("const_cmp!(operands once)", c, const_cmp!(tk(&c, a), t2(&c, b)), tk(&c, a).cmp(&t2(&c, b)));
        let (oa, ob) = (Some(a), if b == 2 { None } else { Some(b) });
        once!("const_eq!(option operands once)", c, const_eq!(tk(&c, oa), t2(&c, ob)), tk(&c, oa) == t2(&c, ob));
        once!("const_cmp!(option operands once)", c, const_cmp!(tk(&c, oa), t2(&c, ob)), tk(&c, oa).cmp(&t2(&c, ob)));
        once!("const_eq_for!(option; operands once)", c, const_eq_for!(option; tk(&c, oa), t2(&c, ob)), tk(&c, oa) == t2(&c, ob));
        once!("const_cmp_for!(option; operands once)", c, const_cmp_for!(option; tk(&c, oa), t2(&c, ob)), tk(&c, oa).cmp(&t2(&c, ob)));
        let (sa, sb): (&[u32], &[u32]) = (&[a, 1], &[b, 1]);
        once!("const_eq!(slice operands once)", c, const_eq!(tk(&c, sa), t2(&c, sb)), tk(&c, sa) == t2(&c, sb));
        once!("const_cmp!(slice operands once)", c, const_cmp!(tk(&c, sa), t2(&c, sb)), tk(&c, sa).cmp(t2(&c, sb)));
        once!("const_eq_for!(slice; operands once)", c, const_eq_for!(slice; tk(&c, sa), t2(&c, sb)), tk(&c, sa) == t2(&c, sb));
        once!("const_eq_for!(slice; operands once, key)", c, const_eq_for!(slice; tk(&c, sa), t2(&c, sb), |x| *x), tk(&c, sa) == t2(&c, sb));
        once!("const_cmp_for!(slice; operands once)", c, const_cmp_for!(slice; tk(&c, sa), t2(&c, sb)), tk(&c, sa).cmp(t2(&c, sb)));
        let (ra, rb) = (a..5, b..5);
        once!("const_eq_for!(range; operands once)", c, const_eq_for!(range; tk(&c, ra.clone()), t2(&c, rb.clone())), tk(&c, ra.clone()) == t2(&c, rb.clone()));
        let (ia, ib) = (a..=5, b..=5);
        once!("const_eq_for!(range_inclusive; operands once)", c, const_eq_for!(range_inclusive; tk(&c, ia.clone()), t2(&c, ib.clone())), tk(&c, ia.clone()) == t2(&c, ib.clone()));
        once!("const_eq!(str operands once)", c, const_eq!(tk(&c, "ab"), t2(&c, if a == b { "ab" } else { "b" })), tk(&c, "ab") == t2(&c, if a == b { "ab" } else { "b" }));
        once!("konst::min!/max! (operands once)", c, (konst::min!(tk(&c, a), t2(&c, b)), konst::max!(tk(&c, a), t2(&c, b))), (tk(&c, a).min(t2(&c, b)), tk(&c, a).max(t2(&c, b))));
    }
}

pub fn run(cfg: &Cfg) -> (&'static str, Report, String, String) {
    // 14 primitive types spread over the thread pool
    let rep = par_for(cfg, 21, |i, r| match i {
        0 => prim!(r, cfg, u8, "u8", int_vals!(u8), [1u8, 5, 255], cmp_u8, eq_option_u8, cmp_option_u8, eq_slice_u8, cmp_slice_u8, eq_option_slice_u8, cmp_option_slice_u8),
        1 => prim!(r, cfg, u16, "u16", int_vals!(u16), [1u16, 5, u16::MAX], cmp_u16, eq_option_u16, cmp_option_u16, eq_slice_u16, cmp_slice_u16, eq_option_slice_u16, cmp_option_slice_u16),
        2 => prim!(r, cfg, u32, "u32", int_vals!(u32), [1u32, 5, u32::MAX], cmp_u32, eq_option_u32, cmp_option_u32, eq_slice_u32, cmp_slice_u32, eq_option_slice_u32, cmp_option_slice_u32),
        3 => prim!(r, cfg, u64, "u64", int_vals!(u64), [1u64, 5, u64::MAX], cmp_u64, eq_option_u64, cmp_option_u64, eq_slice_u64, cmp_slice_u64, eq_option_slice_u64, cmp_option_slice_u64),
        4 => prim!(r, cfg, u128, "u128", int_vals!(u128), [1u128, 5, u128::MAX], cmp_u128, eq_option_u128, cmp_option_u128, eq_slice_u128, cmp_slice_u128, eq_option_slice_u128, cmp_option_slice_u128),
        5 => prim!(r, cfg, usize, "usize", int_vals!(usize), [1usize, 5, usize::MAX], cmp_usize, eq_option_usize, cmp_option_usize, eq_slice_usize, cmp_slice_usize, eq_option_slice_usize, cmp_option_slice_usize),
        6 => prim!(r, cfg, i8, "i8", int_vals!(i8), [-128i8, -1, 127], cmp_i8, eq_option_i8, cmp_option_i8, eq_slice_i8, cmp_slice_i8, eq_option_slice_i8, cmp_option_slice_i8),
        7 => prim!(r, cfg, i16, "i16", int_vals!(i16), [i16::MIN, -1, i16::MAX], cmp_i16, eq_option_i16, cmp_option_i16, eq_slice_i16, cmp_slice_i16, eq_option_slice_i16, cmp_option_slice_i16),
        8 => prim!(r, cfg, i32, "i32", int_vals!(i32), [i32::MIN, -1, i32::MAX], cmp_i32, eq_option_i32, cmp_option_i32, eq_slice_i32, cmp_slice_i32, eq_option_slice_i32, cmp_option_slice_i32),
        9 => prim!(r, cfg, i64, "i64", int_vals!(i64), [i64::MIN, -1, i64::MAX], cmp_i64, eq_option_i64, cmp_option_i64, eq_slice_i64, cmp_slice_i64, eq_option_slice_i64, cmp_option_slice_i64),
        10 => prim!(r, cfg, i128, "i128", int_vals!(i128), [i128::MIN, -1, i128::MAX], cmp_i128, eq_option_i128, cmp_option_i128, eq_slice_i128, cmp_slice_i128, eq_option_slice_i128, cmp_option_slice_i128),
        11 => prim!(r, cfg, isize, "isize", int_vals!(isize), [isize::MIN, -1, isize::MAX], cmp_isize, eq_option_isize, cmp_option_isize, eq_slice_isize, cmp_slice_isize, eq_option_slice_isize, cmp_option_slice_isize),
        12 => prim!(r, cfg, bool, "bool", vec![false, true], [false, true, true], cmp_bool, eq_option_bool, cmp_option_bool, eq_slice_bool, cmp_slice_bool, eq_option_slice_bool, cmp_option_slice_bool),
        13 => prim!(r, cfg, char, "char", vec!['\0', 'a', 'b', 'ñ', '\u{D7FF}', '\u{E000}', '\u{10FFFF}'], ['a', 'ñ', '\u{10FFFF}'], cmp_char, eq_option_char, cmp_option_char, eq_slice_char, cmp_slice_char, eq_option_slice_char, cmp_option_slice_char),
        14 => strings(r, cfg),
        15 => {
            nonzero!(r,
                (NonZeroU8, u8, eq_nonzerou8, cmp_nonzerou8, eq_option_nonzerou8, cmp_option_nonzerou8),
                (NonZeroI8, i8, eq_nonzeroi8, cmp_nonzeroi8, eq_option_nonzeroi8, cmp_option_nonzeroi8),
                (NonZeroU16, u16, eq_nonzerou16, cmp_nonzerou16, eq_option_nonzerou16, cmp_option_nonzerou16),
                (NonZeroI16, i16, eq_nonzeroi16, cmp_nonzeroi16, eq_option_nonzeroi16, cmp_option_nonzeroi16),
                (NonZeroU32, u32, eq_nonzerou32, cmp_nonzerou32, eq_option_nonzerou32, cmp_option_nonzerou32),
                (NonZeroI32, i32, eq_nonzeroi32, cmp_nonzeroi32, eq_option_nonzeroi32, cmp_option_nonzeroi32),
                (NonZeroU64, u64, eq_nonzerou64, cmp_nonzerou64, eq_option_nonzerou64, cmp_option_nonzerou64),
                (NonZeroI64, i64, eq_nonzeroi64, cmp_nonzeroi64, eq_option_nonzeroi64, cmp_option_nonzeroi64),
                (NonZeroU128, u128, eq_nonzerou128, cmp_nonzerou128, eq_option_nonzerou128, cmp_option_nonzerou128),
                (NonZeroI128, i128, eq_nonzeroi128, cmp_nonzeroi128, eq_option_nonzeroi128, cmp_option_nonzeroi128),
                (NonZeroUsize, usize, eq_nonzerousize, cmp_nonzerousize, eq_option_nonzerousize, cmp_option_nonzerousize),
                (NonZeroIsize, isize, eq_nonzeroisize, cmp_nonzeroisize, eq_option_nonzeroisize, cmp_option_nonzeroisize)
            );
        }
        16 => {
            ranges!(r,
                (u8, vec![0u8, 1, 2, 255], eq_range_u8, eq_rangeinc_u8),
                (u16, vec![0u16, 1, u16::MAX], eq_range_u16, eq_rangeinc_u16),
                (u32, vec![0u32, 1, u32::MAX], eq_range_u32, eq_rangeinc_u32),
                (u64, vec![0u64, 1, u64::MAX], eq_range_u64, eq_rangeinc_u64),
                (u128, vec![0u128, 1, u128::MAX], eq_range_u128, eq_rangeinc_u128),
                (usize, vec![0usize, 1, usize::MAX], eq_range_usize, eq_rangeinc_usize),
                (char, vec!['\0', 'a', 'z', '\u{10FFFF}'], eq_range_char, eq_rangeinc_char)
            );
        }
        17 => others(r),
        18 => asserts(r),
        19 => long_operands(r, cfg),
        20 => argument_expressions(r),
        _ => {}
    });
    (
        "C16",
        rep,
        "all pairs of boundary values {MIN,MIN+1,-1,0,1,2,100,MAX-1,MAX} for the 12 integer types, bool, 7 chars; all pairs of slices of length <= 3 over three boundary values per type (+ Option, arrays of length 2); all pairs of strings <= 3 chars over {a,b,ñ,U+10FFFF}; slices of <= 2 strings / byte slices; 12 NonZero types; Range/RangeInclusive of 7 types over all 4-tuples of 3-4 bounds; Ordering, PhantomData, PhantomPinned; Option of each; all triples for the order laws".into(),
        "one evaluation = one konst comparison (cmp_*/eq_* function, const_eq!/const_cmp!, const_eq_for!/const_cmp_for! in every comparator form: none, key closure, two-argument closure, function path; for slice/option/range/range_inclusive; assertc_eq!/assertc_ne! panic behaviour) compared with ==/Ord::cmp, plus the order laws (antisymmetry, cmp==Equal iff eq, transitivity) evaluated on konst's own results over all triples; non-trivial = distinct pairs (per type) of different-length non-empty slices/strings with different first elements, all scalar pairs, ranges with equal start and different end".into(),
    )
}
