use crate::common::*;
pub fn run(_cfg: &Cfg) -> (&'static str, Report, String, String) { ("C15", Report::new(), String::new(), String::new()) }
