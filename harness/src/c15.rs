//! C15 – by-value array and aggregate APIs move out every element exactly once.
//! (ArrayConsumer / ArrayBuilder histories, map_!/from_fn_!, hand-written destructure! shapes;
//!  the full destructure! shape matrix is in the generated programs, gen/gen_c15.py)
use crate::common::*;
use crate::ledger::{self, audit, take_log, Ev, Tok};
use konst::array::{ArrayBuilder, ArrayConsumer};
use std::collections::VecDeque;
use std::mem::ManuallyDrop;

#[derive(Clone, Copy, Debug, PartialEq)]
pub enum Op {
    Next,
    NextBack,
    AsSlice,
    MutReplace,
    CloneDrop,
    CloneSwitch,
    /// clone while `T::clone` panics on the last live element: the partial clone must be dropped soundly
    ClonePanic,
    Push,
    LenFull,
}
#[derive(Clone, Copy, Debug, PartialEq)]
pub enum End {
    Drop,
    AssertEmpty,
    Forget,
    Build,
}

const COPS: [Op; 7] = [Op::Next, Op::NextBack, Op::AsSlice, Op::MutReplace, Op::CloneDrop, Op::CloneSwitch, Op::ClonePanic];
const BOPS: [Op; 7] = [Op::Push, Op::AsSlice, Op::MutReplace, Op::LenFull, Op::CloneDrop, Op::CloneSwitch, Op::ClonePanic];

fn ids(s: &[Tok]) -> Vec<u32> {
    s.iter().map(|t| t.id).collect()
}

fn finish(r: &mut Report, sig: &'static str, desc: &dyn Fn() -> String, panicked_path: bool) {
    let log = take_log();
    let a = audit(&log);
    r.count("ledger:created", a.created as u64);
    r.count("ledger:dropped", a.dropped as u64);
    r.count("ledger:received", a.received as u64);
    if !a.clean(panicked_path) {
        r.fail(
            sig,
            "ledger",
            desc(),
            format!("double_drops={:?} leaked={:?} unknown_drops={:?} double_received={:?} corrupt={:?}", a.double_drops, a.leaked, a.unknown_drops, a.double_received, a.corrupt),
            "every element handed out or dropped exactly once, bit-for-bit intact".into(),
        );
    }
}

/// one ArrayConsumer history
fn consumer_history<const N: usize>(r: &mut Report, ops: &[Op], end: End) {
    let _ = take_log();
    let desc = || format!("ArrayConsumer<Tok,{}> ops={:?} end={:?}", N, ops, end);
    if tracing() {
        eprintln!("TRACE {}", desc());
    }
    let arr: [Tok; N] = core::array::from_fn(|i| Tok::new(i as u32));
    let mut model: VecDeque<u32> = (0..N as u32).collect();
    // held in ManuallyDrop: a panic anywhere in this history must not run a possibly broken Drop impl
    let mut c = ManuallyDrop::new(ArrayConsumer::new(arr));
    let mut held: Vec<Tok> = Vec::new();
    let mut fresh = 100u32;
    let mut bad = false;
    for (k, &op) in ops.iter().enumerate() {
        let what = || format!("{} at op #{} ({:?})", desc(), k, op);
        match op {
            Op::Next | Op::NextBack => {
                let front = op == Op::Next;
                let cref = &mut *c;
                let g = catch(move || if front { cref.next() } else { cref.next_back() });
                r.ev(if front { "consumer.next" } else { "consumer.next_back" });
                let want = if front { model.pop_front() } else { model.pop_back() };
                match g {
                    Err(()) => {
                        r.fail("C15:consumer-panicked", "ArrayConsumer", what(), "<panic>".into(), format!("{:?}", want));
                        bad = true;
                    }
                    Ok(g) => {
                        let g = g.map(|md| ManuallyDrop::into_inner(md).received());
                        let gid = g.as_ref().map(|t| t.id);
                        if gid != want {
                            r.fail("C15:consumer-wrong-element", "ArrayConsumer", what(), format!("{:?}", gid), format!("{:?}", want));
                            bad = true;
                        }
                        if let Some(t) = g {
                            if !t.intact() {
                                r.fail("C15:element-not-intact", "ArrayConsumer", what(), format!("{:?}", t.id), "bit-for-bit unchanged".into());
                            }
                            held.push(t);
                        }
                    }
                }
            }
            Op::AsSlice => {
                r.ev("consumer.as_slice");
                let cref = &*c;
                match catch(|| ids(cref.as_slice())) {
                    Ok(g) => {
                        let w: Vec<u32> = model.iter().copied().collect();
                        if g != w || !c.as_slice().iter().all(|t| t.intact()) {
                            r.fail("C15:consumer-as_slice", "ArrayConsumer", what(), format!("{:?}", g), format!("{:?}", w));
                            bad = true;
                        }
                    }
                    Err(()) => {
                        r.fail("C15:consumer-panicked", "ArrayConsumer", what(), "<panic>".into(), "slice".into());
                        bad = true;
                    }
                }
            }
            Op::MutReplace => {
                r.ev("consumer.as_mut_slice");
                let cref = &mut *c;
                let f = fresh;
                let res = catch(move || {
                    let s = cref.as_mut_slice();
                    let n = s.len();
                    if let Some(last) = s.last_mut() {
                        *last = Tok::new(f); // the old element is dropped here, once
                    }
                    n
                });
                match res {
                    Ok(n) => {
                        if n != model.len() {
                            r.fail("C15:consumer-as_mut_slice", "ArrayConsumer", what(), format!("len {}", n), format!("len {}", model.len()));
                            bad = true;
                        }
                        if n > 0 {
                            *model.back_mut().unwrap() = fresh;
                            fresh += 1;
                        }
                    }
                    Err(()) => {
                        r.fail("C15:consumer-panicked", "ArrayConsumer", what(), "<panic>".into(), "slice".into());
                        bad = true;
                    }
                }
            }
            Op::ClonePanic => {
                r.ev("consumer.clone:T::clone-panics");
                if let Some(&last) = model.back() {
                    ledger::set_panic_on_clone(Some(last));
                    let cref = &*c;
                    let res = catch(|| cref.clone());
                    ledger::set_panic_on_clone(None);
                    match res {
                        Err(()) => {} // the partially built clone was dropped during unwinding; the audit at the end checks how
                        Ok(c2) => {
                            r.fail("C15:consumer-clone-swallowed-panic", "ArrayConsumer", what(), "clone returned".into(), "the panic of T::clone propagates".into());
                            std::mem::forget(c2);
                            bad = true;
                        }
                    }
                }
            }
            Op::CloneDrop | Op::CloneSwitch => {
                r.ev("consumer.clone");
                let before = ledger::log_len();
                let cref = &*c;
                let c2 = match catch(|| ManuallyDrop::new(cref.clone())) {
                    Ok(x) => x,
                    Err(()) => {
                        r.fail("C15:consumer-panicked", "ArrayConsumer", what(), "<panic in clone>".into(), "a clone".into());
                        bad = true;
                        break;
                    }
                };
                let cloned = ids(c2.as_slice());
                // the clone holds clones of exactly the live middle, in order
                let log = ledger_tail(before);
                let froms: Vec<u32> = log.iter().filter_map(|e| if let Ev::Cloned { from, .. } = e { Some(*from) } else { None }).collect();
                let w: Vec<u32> = model.iter().copied().collect();
                if froms != w || cloned.len() != w.len() {
                    r.fail("C15:consumer-clone", "ArrayConsumer", what(), format!("cloned from {:?} -> {:?}", froms, cloned), format!("clones of {:?}", w));
                    bad = true;
                    std::mem::forget(c2);
                    break;
                }
                if op == Op::CloneDrop {
                    if catch(move || drop(ManuallyDrop::into_inner(c2))).is_err() {
                        r.fail("C15:consumer-panicked", "ArrayConsumer", what(), "<panic in drop>".into(), "drop".into());
                        bad = true;
                    }
                } else {
                    let old = std::mem::replace(&mut c, c2);
                    if catch(move || drop(ManuallyDrop::into_inner(old))).is_err() {
                        r.fail("C15:consumer-panicked", "ArrayConsumer", what(), "<panic in drop>".into(), "drop".into());
                        bad = true;
                    }
                    model = cloned.into_iter().collect();
                }
            }
            _ => unreachable!(),
        }
        if bad {
            break;
        }
    }
    let mut panicked = false;
    if bad {
        // state unknown after a failure: leak rather than risk a crash (c is ManuallyDrop)
        std::mem::forget(held);
        let _ = take_log();
        return;
    }
    match end {
        End::Drop => {
            if catch(move || drop(ManuallyDrop::into_inner(c))).is_err() {
                r.fail("C15:consumer-panicked", "ArrayConsumer", desc(), "<panic in drop>".into(), "drop".into());
                std::mem::forget(held);
                let _ = take_log();
                return;
            }
        }
        End::AssertEmpty => {
            r.ev("consumer.assert_is_empty");
            let g = catch(move || ManuallyDrop::into_inner(c).assert_is_empty());
            if g.is_err() != !model.is_empty() {
                r.fail("C15:assert_is_empty", "ArrayConsumer", desc(), format!("panicked={}", g.is_err()), format!("panicked={}", !model.is_empty()));
            }
            panicked = g.is_err();
        }
        End::Forget => {
            // only generated for histories that emptied the consumer: nothing may be left to leak
            // (c is already ManuallyDrop: not dropping it *is* mem::forget)
            let _ = c;
        }
        End::Build => unreachable!(),
    }
    drop(held);
    // note: a panicking assert_is_empty still drops the consumer during unwinding, so even that path is leak-free today;
    // the property exempts panicking paths from the leak clause, and so does the monitor
    finish(r, "C15:consumer-ledger", &desc, panicked);
}

fn ledger_tail(from: usize) -> Vec<Ev> {
    ledger::tail(from)
}

/// one ArrayBuilder history; `c11` selects the C11 oracle wording for the signatures
pub fn builder_history<const N: usize>(r: &mut Report, ops: &[Op], end: End, c11: bool) {
    let _ = take_log();
    let desc = || format!("ArrayBuilder<Tok,{}> ops={:?} end={:?}", N, ops, end);
    let sig = |c15: &'static str, c11s: &'static str| if c11 { c11s } else { c15 };
    let mut b: ArrayBuilder<Tok, N> = ArrayBuilder::new();
    let mut model: Vec<u32> = Vec::new();
    let mut next_id = 0u32;
    let mut fresh = 100u32;
    let mut bad = false;
    for (k, &op) in ops.iter().enumerate() {
        let what = || format!("{} at op #{} ({:?})", desc(), k, op);
        match op {
            Op::Push => {
                r.ev("builder.push");
                let id = next_id;
                next_id += 1;
                let bref = &mut b;
                let g = catch(move || bref.push(Tok::new(id)));
                let must_panic = model.len() >= N;
                if g.is_err() != must_panic {
                    r.fail(sig("C15:builder-push", "C11:builder-push"), "ArrayBuilder", what(), format!("panicked={}", g.is_err()), format!("panicked={} (pushing onto a full builder must panic)", must_panic));
                    bad = true;
                }
                if g.is_ok() {
                    model.push(id);
                }
            }
            Op::AsSlice => {
                r.ev("builder.as_slice");
                let g = ids(b.as_slice());
                if g != model || !b.as_slice().iter().all(|t| t.intact()) {
                    r.fail(sig("C15:builder-as_slice", "C11:builder-as_slice"), "ArrayBuilder", what(), format!("{:?}", g), format!("{:?}", model));
                    bad = true;
                }
            }
            Op::MutReplace => {
                r.ev("builder.as_mut_slice");
                let s = b.as_mut_slice();
                if s.len() != model.len() {
                    r.fail(sig("C15:builder-as_mut_slice", "C11:builder-as_mut_slice"), "ArrayBuilder", what(), format!("len {}", s.len()), format!("len {}", model.len()));
                    bad = true;
                } else if let Some(first) = s.first_mut() {
                    *first = Tok::new(fresh);
                    model[0] = fresh;
                    fresh += 1;
                }
            }
            Op::LenFull => {
                r.ev("builder.len/is_full");
                if b.len() != model.len() || b.is_full() != (model.len() == N) {
                    r.fail(sig("C15:builder-len", "C11:builder-len"), "ArrayBuilder", what(), format!("len={} is_full={}", b.len(), b.is_full()), format!("len={} is_full={}", model.len(), model.len() == N));
                    bad = true;
                }
            }
            Op::ClonePanic => {
                r.ev("builder.clone:T::clone-panics");
                if let Some(&last) = model.last() {
                    ledger::set_panic_on_clone(Some(last));
                    let bref = &b;
                    let res = catch(|| bref.clone());
                    ledger::set_panic_on_clone(None);
                    if let Ok(b2) = res {
                        r.fail(sig("C15:builder-clone-swallowed-panic", "C11:builder-clone-swallowed-panic"), "ArrayBuilder", what(), "clone returned".into(), "the panic of T::clone propagates".into());
                        std::mem::forget(b2);
                        bad = true;
                    }
                }
            }
            Op::CloneDrop | Op::CloneSwitch => {
                r.ev("builder.clone");
                let before = ledger::log_len();
                let b2 = b.clone();
                let cloned = ids(b2.as_slice());
                let log = ledger_tail(before);
                let froms: Vec<u32> = log.iter().filter_map(|e| if let Ev::Cloned { from, .. } = e { Some(*from) } else { None }).collect();
                if froms != model || cloned.len() != model.len() {
                    r.fail(sig("C15:builder-clone", "C11:builder-clone"), "ArrayBuilder", what(), format!("cloned from {:?} -> {:?}", froms, cloned), format!("clones of {:?}", model));
                    bad = true;
                }
                if op == Op::CloneDrop {
                    drop(b2);
                } else {
                    let old = std::mem::replace(&mut b, b2);
                    drop(old);
                    model = cloned;
                }
            }
            _ => unreachable!(),
        }
        if bad {
            break;
        }
    }
    if bad {
        std::mem::forget(b);
        let _ = take_log();
        return;
    }
    let mut panicked = false;
    match end {
        End::Drop => drop(b),
        End::Build => {
            r.ev(if model.len() == N { "builder.build:full" } else { "builder.build:not-full" });
            let g = catch(move || b.build());
            match g {
                Ok(arr) => {
                    let g = ids(&arr);
                    if model.len() != N {
                        r.fail(sig("C15:builder-build-returned-partial-array", "C11:builder-build-returned-partial-array"), "ArrayBuilder", desc(), format!("returned {:?} after {} pushes", g, model.len()), "panic (not fully initialised)".into());
                        std::mem::forget(arr);
                        let _ = take_log();
                        return;
                    }
                    if g != model || !arr.iter().all(|t| t.intact()) {
                        r.fail(sig("C15:builder-build-order", "C11:builder-build-order"), "ArrayBuilder", desc(), format!("{:?}", g), format!("{:?}", model));
                    }
                    drop(arr);
                }
                Err(()) => {
                    panicked = true;
                    if model.len() == N {
                        r.fail(sig("C15:builder-build-panicked", "C11:builder-build-panicked"), "ArrayBuilder", desc(), "<panic>".into(), format!("{:?}", model));
                    }
                }
            }
        }
        _ => unreachable!(),
    }
    finish(r, sig("C15:builder-ledger", "C11:builder-ledger"), &desc, panicked);
}

fn all_seqs(alpha: &[Op], maxlen: usize) -> Vec<Vec<Op>> {
    let mut out = vec![vec![]];
    let mut prev: Vec<Vec<Op>> = vec![vec![]];
    for _ in 0..maxlen {
        let mut cur = Vec::with_capacity(prev.len() * alpha.len());
        for p in &prev {
            for a in alpha {
                let mut x = p.clone();
                x.push(*a);
                cur.push(x);
            }
        }
        out.extend(cur.iter().cloned());
        prev = cur;
    }
    out
}

fn takes(ops: &[Op]) -> usize {
    ops.iter().filter(|o| matches!(o, Op::Next | Op::NextBack)).count()
}

fn consumer_histories(cfg: &Cfg) -> Report {
    let maxn = cfg.by(2, 3, 4);
    let extra = cfg.by(1, 3, 3);
    let mut rep = Report::new();
    macro_rules! forn {
        ($($n:literal)*) => {$(
            if $n <= maxn {
                let seqs = all_seqs(&COPS, $n + extra);
                rep.merge(par_for(cfg, seqs.len(), |i, r| {
                    let ops = &seqs[i];
                    consumer_history::<$n>(r, ops, End::Drop);
                    consumer_history::<$n>(r, ops, End::AssertEmpty);
                    if takes(ops) >= $n {
                        consumer_history::<$n>(r, ops, End::Forget);
                    }
                    let t = takes(ops);
                    if t >= 2 && ops.contains(&Op::Next) && ops.contains(&Op::NextBack) {
                        r.nt(&("consumer", $n, format!("{:?}", ops)));
                    }
                    if i == 1500 { r.sample(|| format!("ArrayConsumer<Tok,{}> history {:?} x ends {{Drop, AssertEmpty, Forget-after-emptying}}", $n, ops)); }
                }));
            }
        )*};
    }
    forn!(0 1 2 3 4);
    rep
}

pub fn builder_histories(cfg: &Cfg, c11: bool) -> Report {
    let maxn = cfg.by(2, 3, 4);
    let extra = cfg.by(1, 3, 3);
    let mut rep = Report::new();
    macro_rules! forn {
        ($($n:literal)*) => {$(
            if $n <= maxn {
                let seqs = all_seqs(&BOPS, $n + extra);
                rep.merge(par_for(cfg, seqs.len(), |i, r| {
                    let ops = &seqs[i];
                    builder_history::<$n>(r, ops, End::Build, c11);
                    builder_history::<$n>(r, ops, End::Drop, c11);
                    let pushes = ops.iter().filter(|o| **o == Op::Push).count();
                    if pushes >= 1 && pushes != $n {
                        r.nt(&("builder", $n, format!("{:?}", ops)));
                    }
                    if i == 900 { r.sample(|| format!("ArrayBuilder<Tok,{}> history {:?} x ends {{Build, Drop}}", $n, ops)); }
                }));
            }
        )*};
    }
    forn!(0 1 2 3 4);
    rep.merge(builder_zst(cfg, c11));
    rep
}

/// Zero-sized element types: nothing is ever stored, so "is the array fully written?" is decided by the
/// push counter alone. Every number of pushes k in 0..=N+1 for `()`, a field-less struct and a ZST with
/// drop glue: len/is_full/as_slice follow k, the (N+1)-th push panics, build succeeds iff k == N, and for
/// the Drop ZST exactly one drop happens per value created (conservation).
fn builder_zst(cfg: &Cfg, c11: bool) -> Report {
    use crate::ledger::{Zdrop, ZDROPS};
    #[derive(Debug, Clone, Copy, PartialEq)]
    struct Unit;
    let mut r = Report::new();
    if !cfg.mine(0) {
        return r;
    }
    let sig = |a: &'static str, b: &'static str| if c11 { b } else { a };
    macro_rules! one {
        ($t:ty, $mk:expr, $n:literal, $tn:literal) => {
            for k in 0..=($n + 1usize) {
                let what = || format!("ArrayBuilder<{},{}>: {} pushes", $tn, $n, k);
                ZDROPS.with(|z| z.set(0));
                let mut b: ArrayBuilder<$t, $n> = ArrayBuilder::new();
                let mut pushed = 0usize;
                let mut created = 0u64;
                for i in 0..k {
                    let must_panic = i >= $n;
                    created += 1;
                    let g = catch(|| b.push($mk));
                    r.ev(if must_panic { "zst-builder.push:full" } else { "zst-builder.push" });
                    if g.is_err() != must_panic {
                        r.fail(sig("C15:builder-push", "C11:builder-push"), "ArrayBuilder", what(), format!("push #{} panicked={}", i + 1, g.is_err()), format!("panicked={}", must_panic));
                    }
                    if g.is_ok() {
                        pushed += 1;
                    }
                }
                r.ev("zst-builder.len/is_full");
                if b.len() != pushed || b.is_full() != (pushed == $n) || b.as_slice().len() != pushed {
                    r.fail(sig("C15:builder-len", "C11:builder-len"), "ArrayBuilder", what(), format!("len={} is_full={} as_slice().len()={}", b.len(), b.is_full(), b.as_slice().len()), format!("len={} is_full={}", pushed, pushed == $n));
                }
                let g = catch(move || b.build());
                r.ev(if pushed == $n { "zst-builder.build:full" } else { "zst-builder.build:partial" });
                match g {
                    Ok(arr) => {
                        if pushed != $n {
                            r.fail(sig("C15:builder-build-returned-partial-array", "C11:builder-build-returned-partial-array"), "ArrayBuilder", what(), format!("returned an array of {} elements after {} pushes", arr.len(), pushed), "panic (not fully initialised)".into());
                        }
                        drop(arr);
                    }
                    Err(()) => {
                        if pushed == $n {
                            r.fail(sig("C15:builder-build-panicked", "C11:builder-build-panicked"), "ArrayBuilder", what(), "<panic>".into(), "the array".into());
                        }
                    }
                }
                if $tn == "Zdrop" {
                    let d = ZDROPS.with(|z| z.get());
                    r.ev("zst-builder.drop-conservation");
                    if d != created {
                        r.fail(sig("C15:zst-element-not-dropped-exactly-once", "C11:zst-element-not-dropped-exactly-once"), "ArrayBuilder", what(), format!("{} drops", d), format!("{} drops (one per created value)", created));
                    }
                }
                if k != $n {
                    r.nt(&("zst-builder", $tn, $n, k));
                }
            }
        };
    }
    macro_rules! forn {
        ($($n:literal)*) => {$(
            one!((), (), $n, "()");
            one!(Unit, Unit, $n, "Unit");
            one!(Zdrop, Zdrop, $n, "Zdrop");
            one!([u64; 0], [], $n, "[u64;0]");
        )*};
    }
    forn!(0 1 2 3 5);
    r
}

// ------------------------------------------------------------------ map_! / from_fn_! with the ledger

fn map_by_value(cfg: &Cfg) -> Report {
    let mut r = Report::new();
    if !cfg.mine(0) {
        return r;
    }
    macro_rules! forn {
        ($($n:literal)*) => {$({
            // plain mapping: every element moved through exactly once, order kept
            let _ = take_log();
            let arr: [Tok; $n] = core::array::from_fn(|i| Tok::new(i as u32));
            let out: [(u32, Tok); $n] = konst::array::map_!(arr, |t| (t.id, t.received()));
            r.ev("map_!:complete");
            let g: Vec<u32> = out.iter().map(|x| x.1.id).collect();
            if g != (0..$n as u32).collect::<Vec<_>>() || out.iter().any(|x| x.0 != x.1.id || !x.1.intact()) {
                r.fail("C15:map_-order", "map_!", format!("N={}", $n), format!("{:?}", g), "0..N in order".into());
            }
            drop(out);
            finish(&mut r, "C15:map_-ledger", &|| format!("map_! N={}", $n), false);
            // from_fn_!
            let _ = take_log();
            let out: [Tok; $n] = konst::array::from_fn_!(|i| Tok::new(i as u32));
            r.ev("from_fn_!:complete");
            if ids(&out) != (0..$n as u32).collect::<Vec<_>>() {
                r.fail("C15:from_fn_-order", "from_fn_!", format!("N={}", $n), format!("{:?}", ids(&out)), "0..N in order".into());
            }
            drop(out);
            finish(&mut r, "C15:from_fn_-ledger", &|| format!("from_fn_! N={}", $n), false);
            // closure panics at element k: no double drop (leak clause exempt on a panicking path)
            for k in 0..$n as u32 {
                let _ = take_log();
                let arr: [Tok; $n] = core::array::from_fn(|i| Tok::new(i as u32));
                let g = catch(move || {
                    let out: [Tok; $n] = konst::array::map_!(arr, |t| { if t.id == k { panic!("closure panic") } t.received() });
                    out
                });
                r.ev("map_!:closure-panics");
                if g.is_ok() {
                    r.fail("C15:map_-swallowed-panic", "map_!", format!("N={} k={}", $n, k), "returned an array".into(), "panic".into());
                }
                drop(g);
                finish(&mut r, "C15:map_-panic-ledger", &|| format!("map_! N={} closure panics at element {}", $n, k), true);
                r.nt(&("map_-panic", $n, k));
            }
            // non-local `return` at element k: a path that runs to completion -> nothing leaked, nothing dropped twice
            for k in 0..$n as u32 {
                let _ = take_log();
                fn early<const M: usize>(arr: [Tok; M], k: u32) -> Option<[Tok; M]> {
                    let out: [Tok; M] = konst::array::map_!(arr, |t| { if t.id == k { return None } t.received() });
                    Some(out)
                }
                let arr: [Tok; $n] = core::array::from_fn(|i| Tok::new(i as u32));
                let g = early::<$n>(arr, k);
                r.ev("map_!:closure-returns");
                if g.is_some() {
                    r.fail("C15:map_-return-ignored", "map_!", format!("N={} k={}", $n, k), "returned an array".into(), "None from the enclosing fn".into());
                }
                drop(g);
                finish(&mut r, "C15:map_-return-ledger", &|| format!("map_! N={} closure returns from the enclosing fn at element {}", $n, k), false);
                r.nt(&("map_-return", $n, k));
            }
        })*};
    }
    forn!(0 1 2 3 5);
    r
}

// ------------------------------------------------------------------ hand-written destructure! shapes (also the Miri subset)

struct Braced {
    a: Tok,
    b: Tok,
    c: Tok,
}
struct Tup(Tok, Tok, Tok);
#[repr(C, packed)]
struct Packed {
    x: u8,
    a: Tok,
    y: u16,
    b: Tok,
}
struct Gen<T, U> {
    t: T,
    u: U,
    z: (),
}

fn destructure_shapes(cfg: &Cfg) -> Report {
    let mut r = Report::new();
    if !cfg.mine(0) {
        return r;
    }
    macro_rules! case {
        ($name:literal, $want_bind:expr, $want_immediate:expr, $body:block) => {{
            let _ = take_log();
            let bound: Vec<u32> = $body;
            r.ev("destructure!");
            let log = ledger::tail(0);
            // elements matched by `_` / `..` must be dropped before the statement after the macro runs
            let mark = log.iter().position(|e| *e == Ev::Mark("after")).unwrap_or(log.len());
            let early: Vec<u32> = log[..mark].iter().filter_map(|e| if let Ev::Dropped(id) = e { Some(*id) } else { None }).collect();
            let mut early_sorted = early.clone();
            early_sorted.sort();
            let want_bind: Vec<u32> = $want_bind;
            let mut want_imm: Vec<u32> = $want_immediate;
            want_imm.sort();
            if bound != want_bind {
                r.fail("C15:destructure-bindings", "destructure!", $name.into(), format!("{:?}", bound), format!("{:?}", want_bind));
            }
            if early_sorted != want_imm {
                r.fail("C15:destructure-ignored-not-dropped-immediately", "destructure!", $name.into(), format!("dropped before the next statement: {:?}", early), format!("{:?}", want_imm));
            }
            finish(&mut r, "C15:destructure-ledger", &|| $name.to_string(), false);
            r.nt(&$name);
        }};
    }
    let t = |i: u32| Tok::new(i);
    case!("Braced{a, b, c}", vec![0, 1, 2], vec![], {
        let v = Braced { a: t(0), b: t(1), c: t(2) };
        konst::destructure! {Braced{a, b, c} = v}
        ledger::mark("after");
        vec![a.received().id, b.received().id, c.received().id]
    });
    case!("Braced{a, b: _, c}", vec![0, 2], vec![1], {
        let v = Braced { a: t(0), b: t(1), c: t(2) };
        konst::destructure! {Braced{a, b: _, c} = v}
        ledger::mark("after");
        vec![a.received().id, c.received().id]
    });
    case!("Braced{a: x, b: y, c: z} renamed", vec![0, 1, 2], vec![], {
        let v = Braced { a: t(0), b: t(1), c: t(2) };
        konst::destructure! {Braced{a: x, b: y, c: z} = v}
        ledger::mark("after");
        vec![x.received().id, y.received().id, z.received().id]
    });
    case!("Tup(a, _, c)", vec![0, 2], vec![1], {
        let v = Tup(t(0), t(1), t(2));
        konst::destructure! {Tup(a, _, c) = v}
        ledger::mark("after");
        vec![a.received().id, c.received().id]
    });
    case!("(a, b, c, d) tuple", vec![0, 1, 2, 3], vec![], {
        let v = (t(0), t(1), t(2), t(3));
        konst::destructure! {(a, b, c, d) = v}
        ledger::mark("after");
        vec![a.received().id, b.received().id, c.received().id, d.received().id]
    });
    case!("(a,) 1-tuple", vec![0], vec![], {
        let v = (t(0),);
        konst::destructure! {(a,) = v}
        ledger::mark("after");
        vec![a.received().id]
    });
    case!("(_, b) tuple", vec![1], vec![0], {
        let v = (t(0), t(1));
        konst::destructure! {(_, b) = v}
        ledger::mark("after");
        vec![b.received().id]
    });
    case!("[a, b, c] array", vec![0, 1, 2], vec![], {
        let v = [t(0), t(1), t(2)];
        konst::destructure! {[a, b, c] = v}
        ledger::mark("after");
        vec![a.received().id, b.received().id, c.received().id]
    });
    case!("[a, .., e] array", vec![0, 4], vec![1, 2, 3], {
        let v = [t(0), t(1), t(2), t(3), t(4)];
        konst::destructure! {[a, .., e] = v}
        ledger::mark("after");
        vec![a.received().id, e.received().id]
    });
    case!("[a, rest @ .., e] array", vec![0, 1, 2, 3, 4], vec![], {
        let v = [t(0), t(1), t(2), t(3), t(4)];
        konst::destructure! {[a, rest @ .., e] = v}
        ledger::mark("after");
        let rest: [Tok; 3] = rest;
        let mut out = vec![a.received().id];
        for x in rest {
            out.push(x.received().id);
        }
        out.push(e.received().id);
        out
    });
    case!("[_, b, ..] array", vec![1], vec![0, 2, 3], {
        let v = [t(0), t(1), t(2), t(3)];
        konst::destructure! {[_, b, ..] = v}
        ledger::mark("after");
        vec![b.received().id]
    });
    case!("[.., d] array", vec![3], vec![0, 1, 2], {
        let v = [t(0), t(1), t(2), t(3)];
        konst::destructure! {[.., d] = v}
        ledger::mark("after");
        vec![d.received().id]
    });
    case!("[] empty array", vec![], vec![], {
        let v: [Tok; 0] = [];
        konst::destructure! {[] = v}
        ledger::mark("after");
        vec![]
    });
    case!("Packed{x, a, y, b} repr(C,packed)", vec![0, 1, 7, 300], vec![], {
        let v = Packed { x: 7, a: t(0), y: 300, b: t(1) };
        konst::destructure! {Packed{x, a, y, b} = v}
        ledger::mark("after");
        vec![a.received().id, b.received().id, x as u32, y as u32]
    });
    case!("Packed{x: _, a: _, y, b} repr(C,packed)", vec![1, 300], vec![0], {
        let v = Packed { x: 7, a: t(0), y: 300, b: t(1) };
        konst::destructure! {Packed{x: _, a: _, y, b} = v}
        ledger::mark("after");
        vec![b.received().id, y as u32]
    });
    case!("Gen::<Tok,(Tok,Tok)>{t, u, z} generic + nested", vec![0, 1, 2], vec![], {
        let v = Gen { t: t(0), u: (t(1), t(2)), z: () };
        konst::destructure! {Gen::<Tok, (Tok, Tok)>{t: tt, u, z: _} = v}
        ledger::mark("after");
        konst::destructure! {(u0, u1) = u}
        vec![tt.received().id, u0.received().id, u1.received().id]
    });
    case!("(a, b): (Tok, Tok) annotated", vec![0, 1], vec![], {
        let v = (t(0), t(1));
        konst::destructure! {(a, b): (Tok, Tok) = v}
        ledger::mark("after");
        vec![a.received().id, b.received().id]
    });
    case!("12-tuple", (0..12).collect(), vec![], {
        let v = (t(0), t(1), t(2), t(3), t(4), t(5), t(6), t(7), t(8), t(9), t(10), t(11));
        konst::destructure! {(a, b, c, d, e, f, g, h, i, j, k, l) = v}
        ledger::mark("after");
        [a, b, c, d, e, f, g, h, i, j, k, l].into_iter().map(|x| x.received().id).collect()
    });
    r
}

/// Zero-sized elements with drop glue: addresses carry no information, so only conservation is
/// observable - every created value is dropped exactly once (pointer-walking Drop impls that compare
/// begin/end pointers silently skip ZSTs).
fn zst_drop(cfg: &Cfg) -> Report {
    use crate::ledger::{Zdrop, ZDROPS};
    let mut r = Report::new();
    if !cfg.mine(0) {
        return r;
    }
    fn drops() -> u64 {
        ZDROPS.with(|z| z.get())
    }
    macro_rules! expect_drops {
        ($name:expr, $created:expr, $body:block) => {{
            ZDROPS.with(|z| z.set(0));
            let res = catch(|| $body);
            r.ev("zst-drop-conservation");
            let d = drops();
            if res.is_err() || d != $created {
                r.fail("C15:zst-element-not-dropped-exactly-once", "ZST with Drop", $name.to_string(), if res.is_err() { "<panic>".into() } else { format!("{} drops", d) }, format!("{} drops (one per created value)", $created));
            }
            r.nt(&$name);
        }};
    }
    macro_rules! forn {
        ($($n:literal)*) => {$(
            for k in 0..=$n {
                expect_drops!(format!("ArrayBuilder<Zdrop,{}>: push {} then drop", $n, k), k as u64, {
                    let mut b: ArrayBuilder<Zdrop, $n> = ArrayBuilder::new();
                    for _ in 0..k { b.push(Zdrop); }
                    assert!(b.len() == k && b.as_slice().len() == k);
                    drop(b);
                });
                expect_drops!(format!("ArrayConsumer<Zdrop,{}>: take {} (alternating ends) then drop", $n, k), $n as u64, {
                    let mut c = ArrayConsumer::new([(); $n].map(|_| Zdrop));
                    for i in 0..k { let x = if i % 2 == 0 { c.next() } else { c.next_back() }; drop(x.map(ManuallyDrop::into_inner)); }
                    assert!(c.as_slice().len() == $n - k);
                    drop(c);
                });
            }
            expect_drops!(format!("ArrayBuilder<Zdrop,{}>: fill, build, drop the array", $n), $n as u64, {
                let mut b: ArrayBuilder<Zdrop, $n> = ArrayBuilder::new();
                for _ in 0..$n { b.push(Zdrop); }
                drop(b.build());
            });
            expect_drops!(format!("map_!([Zdrop;{}]) identity", $n), $n as u64, {
                let out: [Zdrop; $n] = konst::array::map_!([(); $n].map(|_| Zdrop), |z| z);
                drop(out);
            });
            expect_drops!(format!("from_fn_!([Zdrop;{}])", $n), $n as u64, {
                let out: [Zdrop; $n] = konst::array::from_fn_!(|_| Zdrop);
                drop(out);
            });
            for k in 0..$n {
                expect_drops!(format!("map_!([Zdrop;{}]) closure returns from the enclosing fn at element {}", $n, k), $n as u64, {
                    fn early<const M: usize>(arr: [Zdrop; M], k: usize) -> Option<[Zdrop; M]> {
                        let mut i = 0;
                        Some(konst::array::map_!(arr, |z| { if i == k { return None; } i += 1; z }))
                    }
                    drop(early::<$n>([(); $n].map(|_| Zdrop), k));
                });
            }
            expect_drops!(format!("destructure!([Zdrop;{}]) with `..`", $n), $n as u64, {
                let arr = [(); $n].map(|_| Zdrop);
                konst::destructure!{[..] = arr}
            });
        )*};
    }
    forn!(1 2 3 5);
    expect_drops!("destructure!((Zdrop, _, Zdrop))".to_string(), 3u64, {
        let t = (Zdrop, Zdrop, Zdrop);
        konst::destructure!{(a, _, c) = t}
        drop((a, c));
    });
    r
}

/// Copy-type consumers/builders: `copy()` gives an independent value with the same future
fn copy_types(cfg: &Cfg) -> Report {
    let mut r = Report::new();
    if !cfg.mine(0) {
        return r;
    }
    let mut c = ArrayConsumer::new([10u32, 20, 30, 40]);
    let _ = c.next();
    let mut c2 = c.copy();
    let a: Vec<u32> = std::iter::from_fn(|| c.next().map(ManuallyDrop::into_inner)).collect();
    let b: Vec<u32> = std::iter::from_fn(|| c2.next_back().map(ManuallyDrop::into_inner)).collect();
    r.ev("consumer.copy");
    if a != [20, 30, 40] || b != [40, 30, 20] {
        r.fail("C15:consumer-copy", "ArrayConsumer::copy", "[10,20,30,40] next, copy".into(), format!("{:?} {:?}", a, b), "[20,30,40] [40,30,20]".into());
    }
    let mut b1: ArrayBuilder<u8, 3> = ArrayBuilder::new();
    b1.push(1);
    let mut b2 = b1.copy();
    b1.push(2);
    b1.push(3);
    b2.push(9);
    b2.push(8);
    r.ev("builder.copy");
    if b1.build() != [1, 2, 3] || b2.build() != [1, 9, 8] {
        r.fail("C15:builder-copy", "ArrayBuilder::copy", "push 1, copy".into(), "mismatch".into(), "[1,2,3] [1,9,8]".into());
    }
    r
}

pub fn run(cfg: &Cfg) -> (&'static str, Report, String, String) {
    // sanitizer engines must see the real double free; native runs keep the harness alive to report it
    ledger::set_protect(!(cfg.miri() || std::env::var_os("KV_RAW_DROPS").is_some()));
    let mut rep = consumer_histories(cfg);
    rep.merge(builder_histories(cfg, false));
    rep.merge(map_by_value(cfg));
    rep.merge(destructure_shapes(cfg));
    rep.merge(copy_types(cfg));
    rep.merge(zst_drop(cfg));
    (
        "C15",
        rep,
        format!("all ArrayConsumer histories over {{next, next_back, as_slice, as_mut_slice+replace, clone+drop, clone+switch}} up to depth N+{} for N in 0..={} x ends {{drop, assert_is_empty, forget after emptying}}; all ArrayBuilder histories over {{push, as_slice, as_mut_slice+replace, len/is_full, clone+drop, clone+switch}} to the same depth x ends {{build, drop}}; map_!/from_fn_! for N in {{0,1,2,3,5}} with complete, panicking and early-returning closures at every position; 18 hand-written destructure! shapes", cfg.by(1, 3, 3), cfg.by(2, 3, 4)),
        "one evaluation = one operation on a by-value API over ledger elements (unique id, checksummed payload, heap guard), checked against a sequential model (which element comes out, slice contents, clone provenance, panic/no panic) and, at quiescence, the conservation audit of the event log: every created or cloned id dropped exactly once, handed out at most once, never corrupted, nothing leaked on a non-panicking path, `_`/`..` elements dropped before the next statement; non-trivial = distinct histories mixing front and back takes (consumer), histories whose number of pushes differs from N (builder), each panicking/returning closure position, each destructure shape".into(),
    )
}
