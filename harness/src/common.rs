//! Shared monitor infrastructure: PRNG, event report, JSON output, boundary monitors,
//! panic capture, input enumerators.
#![allow(dead_code)]

use std::collections::hash_map::DefaultHasher;
use std::collections::{BTreeMap, HashMap, HashSet};
use std::hash::{Hash, Hasher};
use std::panic::{catch_unwind, AssertUnwindSafe};

// ---------------------------------------------------------------- PRNG

#[derive(Clone)]
pub struct Rng(pub u64);

impl Rng {
    pub fn new(seed: u64) -> Self {
        let mut r = Rng(seed ^ 0x9E37_79B9_7F4A_7C15);
        if r.0 == 0 {
            r.0 = 0x1234_5678_9ABC_DEF1;
        }
        for _ in 0..4 {
            r.next();
        }
        r
    }
    pub fn next(&mut self) -> u64 {
        let mut x = self.0;
        x ^= x >> 12;
        x ^= x << 25;
        x ^= x >> 27;
        self.0 = x;
        x.wrapping_mul(0x2545_F491_4F6C_DD1D)
    }
    pub fn below(&mut self, n: usize) -> usize {
        if n == 0 {
            0
        } else {
            (self.next() % n as u64) as usize
        }
    }
    pub fn pick<'a, T>(&mut self, xs: &'a [T]) -> &'a T {
        &xs[self.below(xs.len())]
    }
    pub fn chance(&mut self, num: usize, den: usize) -> bool {
        self.below(den) < num
    }
}

// ---------------------------------------------------------------- config

#[derive(Clone, Copy, PartialEq, Eq, Debug)]
pub enum Tier {
    Quick,
    Thorough,
    Miri,
}

#[derive(Clone)]
pub struct Cfg {
    pub tier: Tier,
    pub seed: u64,
    pub shard: usize,
    pub nshards: usize,
    pub threads: usize,
    pub only: Option<String>,
}

impl Cfg {
    pub fn quick(&self) -> bool {
        self.tier == Tier::Quick
    }
    pub fn thorough(&self) -> bool {
        self.tier == Tier::Thorough
    }
    pub fn miri(&self) -> bool {
        self.tier == Tier::Miri
    }
    /// pick by tier: (miri, quick, thorough)
    pub fn by<T: Copy>(&self, m: T, q: T, t: T) -> T {
        match self.tier {
            Tier::Miri => m,
            Tier::Quick => q,
            Tier::Thorough => t,
        }
    }
    /// does case number `i` belong to this shard?
    pub fn mine(&self, i: usize) -> bool {
        i % self.nshards == self.shard
    }
}

// ---------------------------------------------------------------- report

#[derive(Clone, Debug)]
pub struct Failure {
    pub sig: String,
    pub api: String,
    pub input: String,
    pub got: String,
    pub want: String,
}

pub const MAX_FAILS_KEPT: usize = 60;
pub const MAX_SAMPLES: usize = 10;

#[derive(Default)]
pub struct Report {
    pub evals: u64,
    pub hist: HashMap<&'static str, u64>,
    pub nontrivial: HashSet<u64>,
    pub samples: Vec<String>,
    pub failures: Vec<Failure>,
    pub fail_count: u64,
    pub fail_sigs: BTreeMap<String, u64>,
    pub boundary_checks: u64,
    pub counters: BTreeMap<String, u64>,
}

pub fn hash_of<H: Hash>(h: &H) -> u64 {
    let mut s = DefaultHasher::new();
    h.hash(&mut s);
    s.finish()
}

static INTERN: std::sync::Mutex<Option<HashMap<String, &'static str>>> = std::sync::Mutex::new(None);

/// Intern a dynamically built histogram key (bounded number of distinct keys).
pub fn intern(s: &str) -> &'static str {
    let mut g = INTERN.lock().unwrap();
    let m = g.get_or_insert_with(HashMap::new);
    if let Some(v) = m.get(s) {
        return v;
    }
    let l: &'static str = Box::leak(s.to_string().into_boxed_str());
    m.insert(s.to_string(), l);
    l
}

impl Report {
    pub fn new() -> Self {
        Self::default()
    }
    /// one monitored call; `key` = "api:outcome-class"
    #[inline]
    pub fn ev(&mut self, key: &'static str) {
        self.evals += 1;
        *self.hist.entry(key).or_insert(0) += 1;
    }
    #[inline]
    pub fn evn(&mut self, key: &'static str, n: u64) {
        self.evals += n;
        *self.hist.entry(key).or_insert(0) += n;
    }
    #[inline]
    pub fn nt<H: Hash>(&mut self, h: &H) {
        self.nontrivial.insert(hash_of(h));
    }
    pub fn count(&mut self, key: &str, n: u64) {
        *self.counters.entry(key.to_string()).or_insert(0) += n;
    }
    pub fn sample(&mut self, s: impl FnOnce() -> String) {
        if self.samples.len() < MAX_SAMPLES {
            self.samples.push(s());
        }
    }
    pub fn fail(&mut self, sig: &str, api: &str, input: String, got: String, want: String) {
        self.fail_count += 1;
        let n = self.fail_sigs.entry(sig.to_string()).or_insert(0);
        *n += 1;
        if *n <= 3 && self.failures.len() < MAX_FAILS_KEPT {
            self.failures.push(Failure { sig: sig.to_string(), api: api.to_string(), input, got, want });
        }
    }
    /// compare two Debug-printable values; record a failure when they differ
    #[inline]
    pub fn eq<A: PartialEq + std::fmt::Debug>(&mut self, api: &'static str, input: impl FnOnce() -> String, got: &A, want: &A) -> bool {
        if got != want {
            self.fail(api, api, input(), format!("{:?}", got), format!("{:?}", want));
            false
        } else {
            true
        }
    }
    pub fn merge(&mut self, o: Report) {
        self.evals += o.evals;
        for (k, v) in o.hist {
            *self.hist.entry(k).or_insert(0) += v;
        }
        self.nontrivial.extend(o.nontrivial);
        for s in o.samples {
            if self.samples.len() < MAX_SAMPLES {
                self.samples.push(s);
            }
        }
        self.fail_count += o.fail_count;
        for (k, v) in o.fail_sigs {
            *self.fail_sigs.entry(k).or_insert(0) += v;
        }
        for f in o.failures {
            if self.failures.len() < MAX_FAILS_KEPT {
                self.failures.push(f);
            }
        }
        self.boundary_checks += o.boundary_checks;
        for (k, v) in o.counters {
            *self.counters.entry(k).or_insert(0) += v;
        }
    }

    pub fn to_json(&self, prop: &str, sub: &str, cfg: &Cfg, exhaustive: &str, rule: &str) -> String {
        let mut s = String::new();
        s.push_str("{\n");
        s.push_str(&format!(" \"property\": {},\n", js(prop)));
        s.push_str(&format!(" \"sub\": {},\n", js(sub)));
        s.push_str(&format!(" \"tier\": {},\n", js(&format!("{:?}", cfg.tier).to_lowercase())));
        s.push_str(&format!(" \"seed\": {},\n", cfg.seed));
        s.push_str(&format!(" \"shard\": \"{}/{}\",\n", cfg.shard, cfg.nshards));
        s.push_str(&format!(" \"debug_assertions\": {},\n", cfg!(debug_assertions)));
        s.push_str(&format!(" \"konst_debug_feature\": {},\n", cfg!(feature = "konst_debug")));
        s.push_str(&format!(" \"miri\": {},\n", cfg!(miri)));
        s.push_str(&format!(" \"evaluations\": {},\n", self.evals));
        s.push_str(&format!(" \"distinct_nontrivial\": {},\n", self.nontrivial.len()));
        s.push_str(&format!(" \"boundary_checks\": {},\n", self.boundary_checks));
        s.push_str(&format!(" \"exhaustive\": {},\n", js(exhaustive)));
        s.push_str(&format!(" \"rule\": {},\n", js(rule)));
        s.push_str(" \"hist\": {");
        let mut keys: Vec<_> = self.hist.iter().collect();
        keys.sort();
        for (i, (k, v)) in keys.iter().enumerate() {
            if i > 0 {
                s.push(',');
            }
            s.push_str(&format!("\n  {}: {}", js(k), v));
        }
        s.push_str("\n },\n \"counters\": {");
        for (i, (k, v)) in self.counters.iter().enumerate() {
            if i > 0 {
                s.push(',');
            }
            s.push_str(&format!("\n  {}: {}", js(k), v));
        }
        s.push_str("\n },\n \"samples\": [");
        for (i, x) in self.samples.iter().enumerate() {
            if i > 0 {
                s.push(',');
            }
            s.push_str(&format!("\n  {}", js(x)));
        }
        s.push_str("\n ],\n");
        s.push_str(&format!(" \"fail_count\": {},\n", self.fail_count));
        s.push_str(" \"fail_sigs\": {");
        for (i, (k, v)) in self.fail_sigs.iter().enumerate() {
            if i > 0 {
                s.push(',');
            }
            s.push_str(&format!("\n  {}: {}", js(k), v));
        }
        s.push_str("\n },\n \"failures\": [");
        for (i, f) in self.failures.iter().enumerate() {
            if i > 0 {
                s.push(',');
            }
            s.push_str(&format!(
                "\n  {{\"sig\": {}, \"api\": {}, \"input\": {}, \"got\": {}, \"want\": {}}}",
                js(&f.sig),
                js(&f.api),
                js(&f.input),
                js(&f.got),
                js(&f.want)
            ));
        }
        s.push_str("\n ]\n}\n");
        s
    }
}

pub fn js(s: &str) -> String {
    let mut o = String::with_capacity(s.len() + 2);
    o.push('"');
    for c in s.chars() {
        match c {
            '"' => o.push_str("\\\""),
            '\\' => o.push_str("\\\\"),
            '\n' => o.push_str("\\n"),
            '\r' => o.push_str("\\r"),
            '\t' => o.push_str("\\t"),
            c if (c as u32) < 0x20 || c == '\u{7f}' => o.push_str(&format!("\\u{:04x}", c as u32)),
            c => o.push(c),
        }
    }
    o.push('"');
    o
}

// ---------------------------------------------------------------- parallel driver

/// Run `f(index, &mut Report)` for every index in 0..n that belongs to this shard,
/// spread over `cfg.threads` threads; merge the per-thread reports.
pub fn par_for(cfg: &Cfg, n: usize, f: impl Fn(usize, &mut Report) + Sync) -> Report {
    let threads = cfg.threads.max(1);
    if threads == 1 {
        let mut r = Report::new();
        for i in 0..n {
            if cfg.mine(i) {
                guarded(&f, i, &mut r);
            }
        }
        return r;
    }
    let next = std::sync::atomic::AtomicUsize::new(0);
    let mut total = Report::new();
    std::thread::scope(|sc| {
        let mut hs = Vec::new();
        for _ in 0..threads {
            hs.push(sc.spawn(|| {
                let mut r = Report::new();
                loop {
                    let i = next.fetch_add(1, std::sync::atomic::Ordering::Relaxed);
                    if i >= n {
                        break;
                    }
                    if cfg.mine(i) {
                        guarded(&f, i, &mut r);
                    }
                }
                r
            }));
        }
        for h in hs {
            total.merge(h.join().expect("worker thread panicked (harness bug)"));
        }
    });
    total
}

/// A monitor that panics while examining a value konst returned (typically: formatting or comparing
/// a `&str` that is not valid UTF-8) must not take the run down: the case is recorded as a failure.
fn guarded(f: &(impl Fn(usize, &mut Report) + Sync), i: usize, r: &mut Report) {
    if tracing() {
        eprintln!("TRACE item={}", i);
    }
    LAST_PANIC.with(|p| p.borrow_mut().clear());
    if catch(|| f(i, &mut *r)).is_err() {
        let last = LAST_PANIC.with(|p| p.borrow().clone());
        if last.contains("/konst/src/") || last.contains("/konst_kernel/src/") || last.contains("/konst_proc_macros/src/") {
            // the panic was raised by konst itself, in a call the workload makes without `catch` because
            // the operation is total for every input (getters, iterators, comparisons, parsers ...)
            r.fail("unexpected-panic-inside-konst", "konst", format!("work item {}", i), format!("panicked: {}", last), "no panic: the operation is defined for every input".into());
        } else {
            r.fail("monitor-panicked-on-returned-value", "harness", format!("work item {}: {}", i, last), "monitor code panicked while examining a returned value (see the preceding failure of this item, e.g. invalid UTF-8)".into(), "no panic".into());
        }
    }
}

// ---------------------------------------------------------------- panic capture

thread_local! {
    static IN_CATCH: std::cell::Cell<u32> = const { std::cell::Cell::new(0) };
    /// message @ location of the most recent panic on this thread (set by the hook)
    static LAST_PANIC: std::cell::RefCell<String> = const { std::cell::RefCell::new(String::new()) };
}

static UB_CHECK_PANICS: std::sync::Mutex<Vec<String>> = std::sync::Mutex::new(Vec::new());
pub static TRACE: std::sync::atomic::AtomicBool = std::sync::atomic::AtomicBool::new(false);

pub fn tracing() -> bool {
    TRACE.load(std::sync::atomic::Ordering::Relaxed)
}

/// Panics raised inside `catch` are observations and stay silent; any other panic is a harness
/// bug and is printed. Panics raised by std's `ub_checks` ("unsafe precondition(s) violated", only
/// present in builds with debug assertions) are recorded: they are C01 events, whatever the
/// functional comparison around them concludes.
pub fn silence_panics() {
    let default = std::panic::take_hook();
    std::panic::set_hook(Box::new(move |info| {
        let msg: String = if let Some(s) = info.payload().downcast_ref::<&str>() {
            s.to_string()
        } else if let Some(s) = info.payload().downcast_ref::<String>() {
            s.clone()
        } else {
            String::new()
        };
        let loc = info.location().map(|l| format!("{}:{}", l.file(), l.line())).unwrap_or_default();
        LAST_PANIC.with(|p| *p.borrow_mut() = format!("{} @ {}", msg.chars().take(200).collect::<String>(), loc));
        if msg.contains("unsafe precondition") {
            if let Ok(mut g) = UB_CHECK_PANICS.lock() {
                if g.len() < 50 {
                    g.push(format!("{} @ {}", msg, loc));
                }
            }
        }
        if IN_CATCH.with(|c| c.get()) == 0 || std::env::var_os("KV_SHOW_PANICS").is_some() {
            default(info);
        }
    }));
}

/// message @ location of the most recent panic on this thread
pub fn last_panic() -> String {
    LAST_PANIC.with(|p| p.borrow().clone())
}

/// ub_checks panics observed so far (drained)
pub fn take_ub_check_panics() -> Vec<String> {
    UB_CHECK_PANICS.lock().map(|mut g| std::mem::take(&mut *g)).unwrap_or_default()
}

/// Run `f`, mapping a panic to `Err(())`.
pub fn catch<R>(f: impl FnOnce() -> R) -> Result<R, ()> {
    IN_CATCH.with(|c| c.set(c.get() + 1));
    let r = catch_unwind(AssertUnwindSafe(f)).map_err(|_| ());
    IN_CATCH.with(|c| c.set(c.get() - 1));
    r
}

// ---------------------------------------------------------------- boundary monitors (C01 clauses)

/// (offset of child's start within parent in bytes, child len) when contained.
pub fn region<T>(s: &[T]) -> (usize, usize) {
    (s.as_ptr() as usize, s.len())
}

/// C01: a non-empty returned slice must lie inside the argument it was derived from.
pub fn mon_sub_slice<T>(r: &mut Report, api: &'static str, parent: &[T], child: &[T]) {
    r.boundary_checks += 1;
    if child.is_empty() {
        return;
    }
    let sz = core::mem::size_of::<T>();
    let ok = if sz == 0 {
        child.len() <= parent.len()
    } else {
        let p0 = parent.as_ptr() as usize;
        let p1 = p0 + parent.len() * sz;
        let c0 = child.as_ptr() as usize;
        let c1 = c0 + child.len() * sz;
        c0 >= p0 && c1 <= p1 && (c0 - p0) % sz == 0
    };
    if !ok {
        r.fail(
            "C01:slice-outside-argument",
            api,
            format!("parent=({:#x},{}) elem_size={}", parent.as_ptr() as usize, parent.len(), sz),
            format!("child=({:#x},{})", child.as_ptr() as usize, child.len()),
            "a sub-range of the argument".into(),
        );
    }
}

/// C01: a returned string must be valid UTF-8; when non-empty it must lie inside the
/// argument and start and end on char boundaries of the argument.
pub fn mon_sub_str(r: &mut Report, api: &'static str, parent: &str, child: &str) {
    r.boundary_checks += 1;
    if core::str::from_utf8(child.as_bytes()).is_err() {
        r.fail(
            "C01:invalid-utf8",
            api,
            format!("parent={:?}", parent),
            format!("bytes={:?}", child.as_bytes()),
            "valid UTF-8".into(),
        );
        return;
    }
    if child.is_empty() {
        return;
    }
    let p0 = parent.as_ptr() as usize;
    let p1 = p0 + parent.len();
    let c0 = child.as_ptr() as usize;
    let c1 = c0 + child.len();
    if !(c0 >= p0 && c1 <= p1) {
        r.fail(
            "C01:str-outside-argument",
            api,
            format!("parent={:?} @({:#x},{})", parent, p0, parent.len()),
            format!("child={:?} @({:#x},{})", child, c0, child.len()),
            "a sub-range of the argument".into(),
        );
        return;
    }
    if !parent.is_char_boundary(c0 - p0) || !parent.is_char_boundary(c1 - p0) {
        r.fail(
            "C01:str-not-on-char-boundary",
            api,
            format!("parent={:?}", parent),
            format!("range={}..{}", c0 - p0, c1 - p0),
            "both ends on char boundaries of the argument".into(),
        );
    }
}

/// Byte offset of `child` inside `parent` (None when not contained).
pub fn off_in(parent: &str, child: &str) -> Option<usize> {
    let p0 = parent.as_ptr() as usize;
    let c0 = child.as_ptr() as usize;
    if c0 >= p0 && c0 + child.len() <= p0 + parent.len() {
        Some(c0 - p0)
    } else {
        None
    }
}

/// One character for every class of UTF-8 lead byte (C2, DF, E0, E1, EC, ED, EE, EF, F0, F1, F3, F4)
/// plus ASCII: alphabets built from Σ4 only ever see the lead bytes C3/E5/F0.
pub const LEADS: [&str; 13] = ["a", "\u{80}", "\u{7ff}", "\u{800}", "\u{1000}", "\u{c000}", "\u{d7ff}", "\u{e000}", "\u{ffff}", "\u{10000}", "\u{40000}", "\u{fffff}", "\u{10ffff}"];
/// 耀 (E8), U+FFFD (EF BF BD), Hangul (EA/ED), fullwidth (EF BC ..): 3-byte chars above U+8000
pub const LEADS_HI3: [&str; 5] = ["\u{8000}", "\u{fffd}", "\u{d55c}", "\u{ff21}", "\u{f000}"];
/// the two ends of the one-byte class (an `< 0x7F` / `<= 0x7F` slip only shows on DEL)
pub const ASCII_EDGES: [&str; 2] = ["\u{7f}", "\0"];

// ---------------------------------------------------------------- enumerators

/// All strings of 0..=max_pieces pieces over `alphabet` (pieces are strings, usually one char).
pub fn strings_upto(alphabet: &[&str], max_pieces: usize) -> Vec<String> {
    let mut out = vec![String::new()];
    let mut prev = vec![String::new()];
    for _ in 0..max_pieces {
        let mut cur = Vec::with_capacity(prev.len() * alphabet.len());
        for p in &prev {
            for a in alphabet {
                let mut s = p.clone();
                s.push_str(a);
                cur.push(s);
            }
        }
        out.extend(cur.iter().cloned());
        prev = cur;
    }
    out
}

/// All byte strings of length 0..=max_len over `alphabet`.
pub fn bytes_upto(alphabet: &[u8], max_len: usize) -> Vec<Vec<u8>> {
    let mut out = vec![Vec::new()];
    let mut prev = vec![Vec::new()];
    for _ in 0..max_len {
        let mut cur = Vec::with_capacity(prev.len() * alphabet.len());
        for p in &prev {
            for a in alphabet {
                let mut s: Vec<u8> = p.clone();
                s.push(*a);
                cur.push(s);
            }
        }
        out.extend(cur.iter().cloned());
        prev = cur;
    }
    out
}

pub fn random_string(rng: &mut Rng, alphabet: &[&str], max_pieces: usize) -> String {
    let n = rng.below(max_pieces + 1);
    let mut s = String::new();
    for _ in 0..n {
        s.push_str(*rng.pick(alphabet));
    }
    s
}

/// The hostile index set I(len) of DESIGN.md §6 for elements of `elem_size` bytes.
pub fn hostile_indices(len: usize, elem_size: usize) -> Vec<usize> {
    let mut v: Vec<usize> = (0..=len + 2).collect();
    let es = elem_size.max(1);
    for x in [
        isize::MAX as usize,
        (isize::MAX as usize) + 1,
        usize::MAX / es,
        (usize::MAX / es).wrapping_add(1),
        (isize::MAX as usize) / es,
        (isize::MAX as usize) / es + 1,
        usize::MAX - 1,
        usize::MAX,
        usize::MAX - len,
        (usize::MAX - len).wrapping_add(1),
        // values that change when truncated to 32 bits
        u32::MAX as usize,
        1usize << 32,
        (1usize << 32) + 1,
        (1usize << 32) + len,
    ] {
        if !v.contains(&x) {
            v.push(x);
        }
    }
    v
}
