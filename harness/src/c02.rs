//! C02 – slice indexing / splitting functions agree with std slice indexing.
use crate::common::*;
use konst::slice as ks;
use std::fmt::Debug;

type Reg = (usize, usize); // (address, len)

fn reg<T>(s: &[T]) -> Reg {
    (s.as_ptr() as usize, s.len())
}
fn oreg<T>(s: Option<&[T]>) -> Option<Reg> {
    s.map(reg)
}

/// documented clamp rules, written from the statement
fn ref_slice_from<T>(s: &[T], start: usize) -> &[T] {
    s.get(start..).unwrap_or(&[])
}
fn ref_slice_up_to<T>(s: &[T], len: usize) -> &[T] {
    s.get(..len).unwrap_or(s)
}
fn ref_slice_range<T>(s: &[T], start: usize, end: usize) -> &[T] {
    let e = end.min(s.len());
    s.get(start..e).unwrap_or(&[])
}

/// compare regions; for an empty clamped result only the length is specified
fn same_region(a: Reg, b: Reg, zst: bool) -> bool {
    if a.1 != b.1 {
        return false;
    }
    if a.1 == 0 || zst {
        return true;
    }
    a.0 == b.0
}

struct Ctx<'a> {
    r: &'a mut Report,
    ty: &'static str,
    zst: bool,
}

impl<'a> Ctx<'a> {
    fn cmp_reg(&mut self, api: &'static str, input: impl Fn() -> String, got: Reg, want: Reg, base: usize) {
        if !same_region(got, want, self.zst) {
            let rel = |x: Reg| format!("(off {}, len {})", x.0.wrapping_sub(base) as isize, x.1);
            self.r.fail(api, api, format!("T={} {}", self.ty, input()), rel(got), rel(want));
        }
    }
    fn cmp_oreg(&mut self, api: &'static str, input: impl Fn() -> String, got: Option<Reg>, want: Option<Reg>, base: usize) {
        match (got, want) {
            (None, None) => {}
            (Some(g), Some(w)) => {
                // a fallible getter returning an empty slice: std returns the empty slice *at* the index;
                // only compare the length there too (empty results may point anywhere, DESIGN §9)
                self.cmp_reg(api, input, g, w, base)
            }
            _ => self.r.fail(api, api, format!("T={} {}", self.ty, input()), format!("{:?}", got.map(|x| x.1)), format!("{:?}", want.map(|x| x.1))),
        }
    }
}

fn shared_checks<T: Debug>(c: &mut Ctx, s: &[T], idx: &[usize]) {
    let len = s.len();
    let base = s.as_ptr() as usize;
    let esz = core::mem::size_of::<T>().max(1);
    for &i in idx {
        // get
        let g = ks::get(s, i).map(|x| x as *const T as usize);
        let w = s.get(i).map(|x| x as *const T as usize);
        c.r.ev(if w.is_some() { "get:Some" } else { "get:None" });
        let ok = if c.zst { g.is_some() == w.is_some() } else { g == w };
        if !ok {
            c.r.fail("get", "get", format!("T={} len={} i={}", c.ty, len, i), format!("{:?}", g.map(|p| p.wrapping_sub(base) / esz)), format!("{:?}", w.map(|p| p.wrapping_sub(base) / esz)));
        }
        // get_from / get_up_to
        let g = ks::get_from(s, i);
        if let Some(x) = g {
            mon_sub_slice(c.r, "slice::get_from", s, x);
        }
        c.r.ev(if s.get(i..).is_some() { "get_from:Some" } else { "get_from:None" });
        c.cmp_oreg("get_from", || format!("len={} start={}", len, i), oreg(g), oreg(s.get(i..)), base);
        let g = ks::get_up_to(s, i);
        if let Some(x) = g {
            mon_sub_slice(c.r, "slice::get_up_to", s, x);
        }
        c.r.ev(if s.get(..i).is_some() { "get_up_to:Some" } else { "get_up_to:None" });
        c.cmp_oreg("get_up_to", || format!("len={} len_arg={}", len, i), oreg(g), oreg(s.get(..i)), base);
        // clamping
        let g = ks::slice_from(s, i);
        mon_sub_slice(c.r, "slice::slice_from", s, g);
        c.r.ev(if i <= len { "slice_from:in-range" } else { "slice_from:clamped" });
        c.cmp_reg("slice_from", || format!("len={} start={}", len, i), reg(g), reg(ref_slice_from(s, i)), base);
        let g = ks::slice_up_to(s, i);
        mon_sub_slice(c.r, "slice::slice_up_to", s, g);
        c.r.ev(if i <= len { "slice_up_to:in-range" } else { "slice_up_to:clamped" });
        c.cmp_reg("slice_up_to", || format!("len={} len_arg={}", len, i), reg(g), reg(ref_slice_up_to(s, i)), base);
        // split_at
        let (ga, gb) = ks::split_at(s, i);
        mon_sub_slice(c.r, "slice::split_at.0", s, ga);
        mon_sub_slice(c.r, "slice::split_at.1", s, gb);
        let (wa, wb): (&[T], &[T]) = if i <= len { s.split_at(i) } else { (s, &[]) };
        c.r.ev(if i <= len { "split_at:in-range" } else { "split_at:clamped" });
        c.cmp_reg("split_at.0", || format!("len={} at={}", len, i), reg(ga), reg(wa), base);
        c.cmp_reg("split_at.1", || format!("len={} at={}", len, i), reg(gb), reg(wb), base);
        if i > 0 && i < len {
            c.r.nt(&(c.ty, len, i, 1u8));
        }
        for &j in idx {
            let g = ks::get_range(s, i, j);
            if let Some(x) = g {
                mon_sub_slice(c.r, "slice::get_range", s, x);
            }
            let w = s.get(i..j);
            c.r.ev(if w.is_some() { "get_range:Some" } else { "get_range:None" });
            c.cmp_oreg("get_range", || format!("len={} start={} end={}", len, i, j), oreg(g), oreg(w), base);
            let g = ks::slice_range(s, i, j);
            mon_sub_slice(c.r, "slice::slice_range", s, g);
            c.r.ev(if w.is_some() { "slice_range:in-range" } else { "slice_range:clamped" });
            c.cmp_reg("slice_range", || format!("len={} start={} end={}", len, i, j), reg(g), reg(ref_slice_range(s, i, j)), base);
            if i < j && j <= len {
                c.r.nt(&(c.ty, len, i, j));
            }
        }
    }
}

/// `_mut` variants: compare addressed regions with std's `_mut` on the same buffer, then write a
/// tag through konst's reference and verify that exactly those elements changed.
fn mut_checks<T: Debug + Clone + PartialEq>(c: &mut Ctx, orig: &[T], idx: &[usize], tag: &dyn Fn(usize) -> T) {
    let len = orig.len();
    let mut buf: Vec<T> = orig.to_vec();
    let base = buf.as_ptr() as usize;
    macro_rules! region_of {
        ($e:expr) => {{
            let x: &mut [T] = $e;
            (x.as_mut_ptr() as usize, x.len())
        }};
    }
    // writes tag(k) into every element of the region returned by konst, checks the set of changed elements
    macro_rules! write_check {
        ($api:expr, $input:expr, $kcall:expr, $want:expr) => {{
            if !c.zst {
                let mut b2: Vec<T> = orig.to_vec();
                {
                    let s: &mut [T] = &mut b2[..];
                    let x: &mut [T] = $kcall(s);
                    for (k, e) in x.iter_mut().enumerate() {
                        *e = tag(k);
                    }
                }
                let want: Reg = $want; // relative (offset in elements, len)
                let mut exp: Vec<T> = orig.to_vec();
                for k in 0..want.1 {
                    exp[want.0 + k] = tag(k);
                }
                if b2 != exp {
                    c.r.fail($api, $api, format!("T={} {} (write-through)", c.ty, $input), format!("{:?}", b2), format!("{:?}", exp));
                }
            }
        }};
    }
    let esz = core::mem::size_of::<T>().max(1);
    for &i in idx {
        // get_mut
        let g = ks::get_mut(&mut buf[..], i).map(|x| x as *mut T as usize);
        let w = buf.get_mut(i).map(|x| x as *mut T as usize);
        c.r.ev(if w.is_some() { "get_mut:Some" } else { "get_mut:None" });
        let ok = if c.zst { g.is_some() == w.is_some() } else { g == w };
        if !ok {
            c.r.fail("get_mut", "get_mut", format!("T={} len={} i={}", c.ty, len, i), format!("{:?}", g), format!("{:?}", w));
        }
        // get_from_mut / slice_from_mut
        let g = ks::get_from_mut(&mut buf[..], i).map(|x| region_of!(x));
        let w = buf.get_mut(i..).map(|x| region_of!(x));
        c.r.ev(if w.is_some() { "get_from_mut:Some" } else { "get_from_mut:None" });
        c.cmp_oreg("get_from_mut", || format!("len={} start={}", len, i), g, w, base);
        let g = region_of!(ks::slice_from_mut(&mut buf[..], i));
        let wr: Reg = if i <= len { (base + i * esz, len - i) } else { (base, 0) };
        c.r.ev(if i <= len { "slice_from_mut:in-range" } else { "slice_from_mut:clamped" });
        c.cmp_reg("slice_from_mut", || format!("len={} start={}", len, i), g, wr, base);
        write_check!("slice_from_mut", format!("len={} start={}", len, i), |s| ks::slice_from_mut(s, i), if i <= len { (i, len - i) } else { (0, 0) });
        // get_up_to_mut / slice_up_to_mut
        let g = ks::get_up_to_mut(&mut buf[..], i).map(|x| region_of!(x));
        let w = buf.get_mut(..i).map(|x| region_of!(x));
        c.r.ev(if w.is_some() { "get_up_to_mut:Some" } else { "get_up_to_mut:None" });
        c.cmp_oreg("get_up_to_mut", || format!("len={} len_arg={}", len, i), g, w, base);
        let g = region_of!(ks::slice_up_to_mut(&mut buf[..], i));
        let wr: Reg = (base, i.min(len));
        c.r.ev(if i <= len { "slice_up_to_mut:in-range" } else { "slice_up_to_mut:clamped" });
        c.cmp_reg("slice_up_to_mut", || format!("len={} len_arg={}", len, i), g, wr, base);
        write_check!("slice_up_to_mut", format!("len={} len_arg={}", len, i), |s| ks::slice_up_to_mut(s, i), (0, i.min(len)));
        // split_at_mut
        let (ga, gb) = {
            let (a, b) = ks::split_at_mut(&mut buf[..], i);
            (region_of!(a), region_of!(b))
        };
        let (wa, wb): (Reg, Reg) = if i <= len { ((base, i), (base + i * esz, len - i)) } else { ((base, len), (base, 0)) };
        c.r.ev(if i <= len { "split_at_mut:in-range" } else { "split_at_mut:clamped" });
        c.cmp_reg("split_at_mut.0", || format!("len={} at={}", len, i), ga, wa, base);
        c.cmp_reg("split_at_mut.1", || format!("len={} at={}", len, i), gb, wb, base);
        if !c.zst {
            // both halves written with different tags: they must not overlap and must tile the slice
            let mut b2: Vec<T> = orig.to_vec();
            {
                let (a, b) = ks::split_at_mut(&mut b2[..], i);
                for e in a.iter_mut() {
                    *e = tag(7001);
                }
                for e in b.iter_mut() {
                    *e = tag(7002);
                }
            }
            let cut = i.min(len);
            let exp: Vec<T> = (0..len).map(|k| if k < cut { tag(7001) } else { tag(7002) }).collect();
            if b2 != exp {
                c.r.fail("split_at_mut", "split_at_mut", format!("T={} len={} at={} (write-through)", c.ty, len, i), format!("{:?}", b2), format!("{:?}", exp));
            }
        }
        for &j in idx {
            let g = ks::get_range_mut(&mut buf[..], i, j).map(|x| region_of!(x));
            let w = buf.get_mut(i..j).map(|x| region_of!(x));
            c.r.ev(if w.is_some() { "get_range_mut:Some" } else { "get_range_mut:None" });
            c.cmp_oreg("get_range_mut", || format!("len={} start={} end={}", len, i, j), g, w, base);
            let g = region_of!(ks::slice_range_mut(&mut buf[..], i, j));
            let e = j.min(len);
            let wrel: Reg = if i <= e { (i, e - i) } else { (0, 0) };
            let wr: Reg = (base + wrel.0 * esz, wrel.1);
            c.r.ev(if i <= j && j <= len { "slice_range_mut:in-range" } else { "slice_range_mut:clamped" });
            c.cmp_reg("slice_range_mut", || format!("len={} start={} end={}", len, i, j), g, wr, base);
            if i < j && j <= len && j - i < len {
                write_check!("slice_range_mut", format!("len={} start={} end={}", len, i, j), |s| ks::slice_range_mut(s, i, j), wrel);
            }
        }
    }
    // first_mut .. split_last_mut
    let g = ks::first_mut(&mut buf[..]).map(|x| x as *mut T as usize);
    let w = buf.first_mut().map(|x| x as *mut T as usize);
    c.r.ev(if w.is_some() { "first_mut:Some" } else { "first_mut:None" });
    if (c.zst && g.is_some() != w.is_some()) || (!c.zst && g != w) {
        c.r.fail("first_mut", "first_mut", format!("T={} len={}", c.ty, len), format!("{:?}", g), format!("{:?}", w));
    }
    let g = ks::last_mut(&mut buf[..]).map(|x| x as *mut T as usize);
    let w = buf.last_mut().map(|x| x as *mut T as usize);
    c.r.ev(if w.is_some() { "last_mut:Some" } else { "last_mut:None" });
    if (c.zst && g.is_some() != w.is_some()) || (!c.zst && g != w) {
        c.r.fail("last_mut", "last_mut", format!("T={} len={}", c.ty, len), format!("{:?}", g), format!("{:?}", w));
    }
    let g = ks::split_first_mut(&mut buf[..]).map(|(a, b)| (a as *mut T as usize, region_of!(b)));
    let w = buf.split_first_mut().map(|(a, b)| (a as *mut T as usize, region_of!(b)));
    c.r.ev(if w.is_some() { "split_first_mut:Some" } else { "split_first_mut:None" });
    let ok = match (&g, &w) {
        (None, None) => true,
        (Some(g), Some(w)) => (c.zst || g.0 == w.0) && same_region(g.1, w.1, c.zst),
        _ => false,
    };
    if !ok {
        c.r.fail("split_first_mut", "split_first_mut", format!("T={} len={}", c.ty, len), format!("{:?}", g), format!("{:?}", w));
    }
    let g = ks::split_last_mut(&mut buf[..]).map(|(a, b)| (a as *mut T as usize, region_of!(b)));
    let w = buf.split_last_mut().map(|(a, b)| (a as *mut T as usize, region_of!(b)));
    c.r.ev(if w.is_some() { "split_last_mut:Some" } else { "split_last_mut:None" });
    let ok = match (&g, &w) {
        (None, None) => true,
        (Some(g), Some(w)) => (c.zst || g.0 == w.0) && same_region(g.1, w.1, c.zst),
        _ => false,
    };
    if !ok {
        c.r.fail("split_last_mut", "split_last_mut", format!("T={} len={}", c.ty, len), format!("{:?}", g), format!("{:?}", w));
    }
}

fn arrays_and_chunks<T: Debug + Clone>(c: &mut Ctx, s: &[T]) {
    let len = s.len();
    let base = s.as_ptr() as usize;
    macro_rules! arr {
        ($($n:literal)*) => {$(
            {
                let g = ks::try_into_array::<T, $n>(s).ok().map(|a| (a.as_ptr() as usize, a.len()));
                let w = <&[T; $n]>::try_from(s).ok().map(|a| (a.as_ptr() as usize, a.len()));
                c.r.ev(if w.is_some() { "try_into_array:Ok" } else { "try_into_array:Err" });
                c.cmp_oreg("try_into_array", || format!("len={} N={}", len, $n), g, w, base);
                if w.is_some() { c.r.nt(&(c.ty, "arr", len, $n)); }
                let mut b: Vec<T> = s.to_vec();
                let b0 = b.as_ptr() as usize;
                let g = ks::try_into_array_mut::<T, $n>(&mut b[..]).ok().map(|a| (a.as_mut_ptr() as usize, a.len()));
                let w = <&mut [T; $n]>::try_from(&mut b[..]).ok().map(|a| (a.as_mut_ptr() as usize, a.len()));
                c.r.ev(if w.is_some() { "try_into_array_mut:Ok" } else { "try_into_array_mut:Err" });
                c.cmp_oreg("try_into_array_mut", || format!("len={} N={}", len, $n), g, w, b0);
            }
        )*};
    }
    arr!(0 1 2 3 4 5 6 7 8 9 10 11 12 16 17 31 32 33 64 128 255 256 257 1000);
    macro_rules! chunks {
        ($($n:literal)*) => {$(
            {
                let (ga, gr) = ks::as_chunks::<T, $n>(s);
                let (wa, wr) = s.as_chunks::<$n>();
                mon_sub_slice(c.r, "slice::as_chunks.rem", s, gr);
                c.r.ev(if wa.is_empty() { "as_chunks:no-chunk" } else if wr.is_empty() { "as_chunks:exact" } else { "as_chunks:chunks+rem" });
                c.cmp_reg("as_chunks.arrays", || format!("len={} N={}", len, $n), (ga.as_ptr() as usize, ga.len()), (wa.as_ptr() as usize, wa.len()), base);
                c.cmp_reg("as_chunks.rem", || format!("len={} N={}", len, $n), reg(gr), reg(wr), base);
                let (gr, ga) = ks::as_rchunks::<T, $n>(s);
                let (wr, wa) = s.as_rchunks::<$n>();
                mon_sub_slice(c.r, "slice::as_rchunks.rem", s, gr);
                c.r.ev(if wa.is_empty() { "as_rchunks:no-chunk" } else if wr.is_empty() { "as_rchunks:exact" } else { "as_rchunks:chunks+rem" });
                c.cmp_reg("as_rchunks.arrays", || format!("len={} N={}", len, $n), (ga.as_ptr() as usize, ga.len()), (wa.as_ptr() as usize, wa.len()), base);
                c.cmp_reg("as_rchunks.rem", || format!("len={} N={}", len, $n), reg(gr), reg(wr), base);
                if !wa.is_empty() && !wr.is_empty() { c.r.nt(&(c.ty, "chunks", len, $n)); }
            }
        )*};
    }
    chunks!(1 2 3 4 5 6 7 8 9 11 16 17 31 32 33 64 127 128 129 256 512);
}

fn run_type<T: Debug + Clone + PartialEq + Send + Sync>(cfg: &Cfg, ty: &'static str, mk: &(dyn Fn(usize) -> T + Sync), maxlen: usize) -> Report {
    let zst = core::mem::size_of::<T>() == 0;
    par_for(cfg, maxlen + 1, |len, r| {
        let v: Vec<T> = (0..len).map(|k| mk(k)).collect();
        let idx = hostile_indices(len, core::mem::size_of::<T>());
        let mut c = Ctx { r, ty, zst };
        shared_checks(&mut c, &v, &idx);
        let tag = |k: usize| mk(1000 + k);
        mut_checks(&mut c, &v, &idx, &tag);
        arrays_and_chunks(&mut c, &v);
        if len == 3 {
            c.r.sample(|| format!("T={} slice={:?} indices={:?}", ty, v, &idx[..6]));
        }
    })
}

/// zero-sized elements allow slices longer than isize::MAX: the only inputs for which an index
/// above isize::MAX is *in range*.
fn huge_zst(cfg: &Cfg) -> Report {
    let mut r = Report::new();
    if cfg.shard != 0 {
        return r;
    }
    static BIG: [(); usize::MAX] = [(); usize::MAX];
    let h = (isize::MAX as usize) + 1;
    let lens = [usize::MAX, usize::MAX - 1, h + 1, h, h - 1];
    for &len in &lens {
        let s: &[()] = &BIG[..len];
        let mut idx = vec![0usize, 1, 2, h - 2, h - 1, h, h + 1, usize::MAX - 2, usize::MAX - 1, usize::MAX];
        for d in 0..3 {
            idx.push(len.wrapping_sub(d));
            idx.push(len.wrapping_add(d));
        }
        idx.sort();
        idx.dedup();
        let mut c = Ctx { r: &mut r, ty: "()huge", zst: true };
        shared_checks(&mut c, s, &idx);
        macro_rules! chunks {
            ($($n:literal)*) => {$(
                {
                    let (ga, gr) = ks::as_chunks::<(), $n>(s);
                    let (wa, wr) = s.as_chunks::<$n>();
                    c.r.ev("as_chunks:huge-zst");
                    if (ga.len(), gr.len()) != (wa.len(), wr.len()) {
                        c.r.fail("as_chunks", "as_chunks", format!("T=() len={} N={}", len, $n), format!("{:?}", (ga.len(), gr.len())), format!("{:?}", (wa.len(), wr.len())));
                    }
                    let (gr, ga) = ks::as_rchunks::<(), $n>(s);
                    let (wr, wa) = s.as_rchunks::<$n>();
                    c.r.ev("as_rchunks:huge-zst");
                    if (ga.len(), gr.len()) != (wa.len(), wr.len()) {
                        c.r.fail("as_rchunks", "as_rchunks", format!("T=() len={} N={}", len, $n), format!("{:?}", (ga.len(), gr.len())), format!("{:?}", (wa.len(), wr.len())));
                    }
                }
            )*};
        }
        chunks!(1 2 3 7);
        // _mut variants on a huge ZST slice (a dangling, aligned pointer is valid for ZSTs)
        let big_mut: &mut [()] = unsafe { core::slice::from_raw_parts_mut(core::ptr::NonNull::<()>::dangling().as_ptr(), len) };
        for &i in &idx {
            let g = ks::slice_from_mut(&mut big_mut[..], i).len();
            let w = if i <= len { len - i } else { 0 };
            c.r.ev("slice_from_mut:huge-zst");
            c.r.eq("slice_from_mut", || format!("T=() len={} start={}", len, i), &g, &w);
            let g = ks::slice_up_to_mut(&mut big_mut[..], i).len();
            c.r.ev("slice_up_to_mut:huge-zst");
            c.r.eq("slice_up_to_mut", || format!("T=() len={} len_arg={}", len, i), &g, &i.min(len));
            let g = ks::get_from_mut(&mut big_mut[..], i).map(|x| x.len());
            c.r.ev("get_from_mut:huge-zst");
            c.r.eq("get_from_mut", || format!("T=() len={} start={}", len, i), &g, &(if i <= len { Some(len - i) } else { None }));
            let g = ks::get_up_to_mut(&mut big_mut[..], i).map(|x| x.len());
            c.r.ev("get_up_to_mut:huge-zst");
            c.r.eq("get_up_to_mut", || format!("T=() len={} len_arg={}", len, i), &g, &(if i <= len { Some(i) } else { None }));
            let g = {
                let (a, b) = ks::split_at_mut(&mut big_mut[..], i);
                (a.len(), b.len())
            };
            c.r.ev("split_at_mut:huge-zst");
            c.r.eq("split_at_mut", || format!("T=() len={} at={}", len, i), &g, &(if i <= len { (i, len - i) } else { (len, 0) }));
            for &j in &idx {
                let g = ks::get_range_mut(&mut big_mut[..], i, j).map(|x| x.len());
                let w = if i <= j && j <= len { Some(j - i) } else { None };
                c.r.ev("get_range_mut:huge-zst");
                c.r.eq("get_range_mut", || format!("T=() len={} start={} end={}", len, i, j), &g, &w);
                let g = ks::slice_range_mut(&mut big_mut[..], i, j).len();
                let e = j.min(len);
                c.r.ev("slice_range_mut:huge-zst");
                c.r.eq("slice_range_mut", || format!("T=() len={} start={} end={}", len, i, j), &g, &(if i <= e { e - i } else { 0 }));
            }
        }
        c.r.nt(&("huge", len));
    }
    r
}

/// long slices: a refactor that processes elements in blocks (8/16/32 at a time) only misbehaves
/// beyond the lengths the exhaustive part reaches
fn long_slices(cfg: &Cfg) -> Report {
    let lens: &[usize] = if cfg.miri() { &[33] } else { &[31, 32, 33, 63, 64, 65, 127, 128, 129, 255, 256, 257, 1000] };
    par_for(cfg, lens.len() * 2, |w, r| {
        let len = lens[w / 2];
        let mut rng = Rng::new(cfg.seed ^ (w as u64 * 7919));
        let mut idx: Vec<usize> = vec![0, 1, 7, 8, 9, 15, 16, 17, 31, 32, 33, 63, 64, 65, len / 2, len - 1, len, len + 1, usize::MAX];
        for _ in 0..cfg.by(2, 8, 16) {
            idx.push(rng.below(len + 2));
        }
        idx.retain(|&i| i <= len + 1 || i == usize::MAX);
        idx.sort();
        idx.dedup();
        if w % 2 == 0 {
            let v: Vec<u32> = (0..len).map(|k| 10 + k as u32).collect();
            let mut c = Ctx { r, ty: "u32(long)", zst: false };
            shared_checks(&mut c, &v, &idx);
            mut_checks(&mut c, &v, &idx, &|k| 100_000 + k as u32);
            arrays_and_chunks(&mut c, &v);
        } else {
            let v: Vec<u8> = (0..len).map(|k| k as u8).collect();
            let mut c = Ctx { r, ty: "u8(long)", zst: false };
            shared_checks(&mut c, &v, &idx);
            mut_checks(&mut c, &v, &idx, &|k| (200 + k) as u8);
            arrays_and_chunks(&mut c, &v);
        }
    })
}

pub fn run(cfg: &Cfg) -> (&'static str, Report, String, String) {
    let maxlen = cfg.by(3, 10, 16);
    let mut rep = Report::new();
    rep.merge(run_type::<u32>(cfg, "u32", &|k| 10 + k as u32, maxlen));
    rep.merge(run_type::<()>(cfg, "()", &|_| (), maxlen));
    rep.merge(run_type::<String>(cfg, "String", &|k| format!("s{}", k), cfg.by(3, maxlen, maxlen)));
    rep.merge(run_type::<[u8; 3]>(cfg, "[u8;3]", &|k| [k as u8, 1, 2], cfg.by(3, maxlen, maxlen)));
    rep.merge(run_type::<u64>(cfg, "u64", &|k| 1u64 << (k % 60), cfg.by(2, maxlen, maxlen)));
    rep.merge(huge_zst(cfg));
    rep.merge(long_slices(cfg));
    (
        "C02",
        rep,
        format!("all lengths 0..={} x element types u32/()/String/[u8;3]/u64 x all indices and index pairs from I(len) (0..=len+2 plus values around isize::MAX, usize::MAX/size, usize::MAX); array sizes 0..=12,16,17,31..33,64,128,255..257,1000; chunk sizes 1..=9,11,16,17,31..33,64,127..129,256,512; ZST slices of length isize::MAX-ish..usize::MAX; long slices (31..=257, 1000 elements of u32/u8) with index pairs around the block sizes 8/16/32/64", maxlen),
        "one evaluation = one konst call compared with std (get/get_mut/get_from/get_up_to/get_range/slice_from/slice_up_to/slice_range/split_at and _mut twins, first/last/split_first/split_last _mut, try_into_array(_mut), as_chunks, as_rchunks); compared by address+length (length only for empty results and ZSTs), _mut variants additionally by writing tags through the returned reference; non-trivial = distinct (type,len,start,end) with a non-empty proper sub-slice, (type,len,N) with a successful array conversion or chunks+remainder".into(),
    )
}
