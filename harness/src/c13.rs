use crate::common::*;
pub fn run(_cfg: &Cfg, _m: bool) -> (&'static str, Report, String, String) { ("C13", Report::new(), String::new(), String::new()) }
