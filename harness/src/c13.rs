//! C13 – Parser offsets always describe where the remainder sits in the original string
//!        (invariant monitor + error-offset monitor after every step of every history)
//! C14 – Parser operations transform the remainder exactly like the free string functions;
//!        split protocols (reference-model monitor over the same histories + pure protocols)
use crate::common::*;
use konst::parsing::{ErrorKind, ParseDirection, ParseError};
use konst::string as kstr;
use konst::Parser;

#[derive(Clone, Copy, Debug, PartialEq)]
enum Side {
    Start,
    End,
    Both,
}

#[derive(Clone, Copy, Debug, PartialEq)]
enum Op {
    Trim,
    TrimStart,
    TrimEnd,
    TrimMatches(&'static str),
    TrimStartMatches(&'static str),
    TrimEndMatches(&'static str),
    TrimEndMatchesC(char),
    TrimMatchesC(char),
    StripPrefix(&'static str),
    StripPrefixC(char),
    StripSuffix(&'static str),
    StripSuffixC(char),
    FindSkip(&'static str),
    FindSkipC(char),
    RFindSkip(&'static str),
    RFindSkipC(char),
    Split(&'static str),
    SplitC(char),
    RSplit(&'static str),
    SplitTerminator(&'static str),
    RSplitTerminator(&'static str),
    SplitKeep(&'static str),
    Skip(usize),
    SkipBack(usize),
    ParseU8,
    ParseI8,
    ParseU32,
    ParseI64,
    ParseBool,
}

const OPS: &[Op] = &[
    Op::Trim,
    Op::TrimStart,
    Op::TrimEnd,
    Op::TrimMatches(" "),
    Op::TrimMatches("aa"),
    Op::TrimMatches("a,a"),
    Op::TrimMatchesC('a'),
    Op::TrimStartMatches("a"),
    Op::TrimStartMatches("ñ"),
    Op::TrimEndMatches("a"),
    Op::TrimEndMatches(",a"),
    Op::TrimEndMatchesC(','),
    Op::StripPrefix("a"),
    Op::StripPrefix("a,"),
    Op::StripPrefixC('ñ'),
    Op::StripSuffix("a"),
    Op::StripSuffix(","),
    Op::StripSuffixC('ñ'),
    Op::FindSkip(","),
    Op::FindSkip("a,"),
    Op::FindSkipC('ñ'),
    Op::RFindSkip(","),
    Op::RFindSkipC('a'),
    Op::Split(","),
    Op::SplitC('a'),
    Op::RSplit(","),
    Op::SplitTerminator(","),
    Op::RSplitTerminator(","),
    Op::SplitKeep(","),
    Op::Skip(1),
    Op::Skip(2),
    Op::SkipBack(1),
    Op::SkipBack(3),
    Op::ParseU8,
    Op::ParseI8,
    Op::ParseU32,
    Op::ParseI64,
    Op::ParseBool,
];

/// what the real Parser did
enum Got<'a> {
    Ok(Parser<'a>, Option<String>), // new parser, value/piece handed out (rendered)
    Err(ParseError<'a>),
}

fn apply<'a>(p: Parser<'a>, op: Op) -> Got<'a> {
    fn piece<'a>(r: Result<(&'a str, Parser<'a>), ParseError<'a>>) -> Got<'a> {
        match r {
            Ok((s, p)) => Got::Ok(p, Some(format!("{:?}", s))),
            Err(e) => Got::Err(e),
        }
    }
    fn plain<'a>(r: Result<Parser<'a>, ParseError<'a>>) -> Got<'a> {
        match r {
            Ok(p) => Got::Ok(p, None),
            Err(e) => Got::Err(e),
        }
    }
    match op {
        Op::Trim => Got::Ok(p.trim(), None),
        Op::TrimStart => Got::Ok(p.trim_start(), None),
        Op::TrimEnd => Got::Ok(p.trim_end(), None),
        Op::TrimMatches(n) => Got::Ok(p.trim_matches(n), None),
        Op::TrimMatchesC(n) => Got::Ok(p.trim_matches(n), None),
        Op::TrimStartMatches(n) => Got::Ok(p.trim_start_matches(n), None),
        Op::TrimEndMatches(n) => Got::Ok(p.trim_end_matches(n), None),
        Op::TrimEndMatchesC(n) => Got::Ok(p.trim_end_matches(n), None),
        Op::StripPrefix(n) => plain(p.strip_prefix(n)),
        Op::StripPrefixC(n) => plain(p.strip_prefix(n)),
        Op::StripSuffix(n) => plain(p.strip_suffix(n)),
        Op::StripSuffixC(n) => plain(p.strip_suffix(n)),
        Op::FindSkip(n) => plain(p.find_skip(n)),
        Op::FindSkipC(n) => plain(p.find_skip(n)),
        Op::RFindSkip(n) => plain(p.rfind_skip(n)),
        Op::RFindSkipC(n) => plain(p.rfind_skip(n)),
        Op::Split(d) => piece(p.split(d)),
        Op::SplitC(d) => piece(p.split(d)),
        Op::RSplit(d) => piece(p.rsplit(d)),
        Op::SplitTerminator(d) => piece(p.split_terminator(d)),
        Op::RSplitTerminator(d) => piece(p.rsplit_terminator(d)),
        Op::SplitKeep(d) => piece(p.split_keep(d)),
        Op::Skip(n) => Got::Ok(p.skip(n), None),
        Op::SkipBack(n) => Got::Ok(p.skip_back(n), None),
        Op::ParseU8 => match p.parse_u8() {
            Ok((v, p)) => Got::Ok(p, Some(format!("{}", v))),
            Err(e) => Got::Err(e),
        },
        Op::ParseI8 => match p.parse_i8() {
            Ok((v, p)) => Got::Ok(p, Some(format!("{}", v))),
            Err(e) => Got::Err(e),
        },
        Op::ParseU32 => match p.parse_u32() {
            Ok((v, p)) => Got::Ok(p, Some(format!("{}", v))),
            Err(e) => Got::Err(e),
        },
        Op::ParseI64 => match p.parse_i64() {
            Ok((v, p)) => Got::Ok(p, Some(format!("{}", v))),
            Err(e) => Got::Err(e),
        },
        Op::ParseBool => match p.parse_bool() {
            Ok((v, p)) => Got::Ok(p, Some(format!("{}", v))),
            Err(e) => Got::Err(e),
        },
    }
}

fn side(op: Op) -> Side {
    match op {
        Op::Trim | Op::TrimMatches(_) | Op::TrimMatchesC(_) => Side::Both,
        Op::TrimEnd | Op::TrimEndMatches(_) | Op::TrimEndMatchesC(_) | Op::StripSuffix(_) | Op::StripSuffixC(_) | Op::RFindSkip(_) | Op::RFindSkipC(_) | Op::RSplit(_) | Op::RSplitTerminator(_) | Op::SkipBack(_) => Side::End,
        _ => Side::Start,
    }
}

fn is_split_family(op: Op) -> bool {
    matches!(op, Op::Split(_) | Op::SplitC(_) | Op::RSplit(_) | Op::SplitTerminator(_) | Op::RSplitTerminator(_) | Op::SplitKeep(_))
}

/// The C14 reference: result of `op` on remainder `rem`, computed with konst's *free* string
/// functions (and the std-based prefix-parse reference of C12).
/// Returns (must_succeed, Some((new_remainder, piece)) if it can succeed, sets_exhausted)
struct Expect<'a> {
    /// Some(..) = what a successful step must produce; None = a successful step is impossible
    ok: Option<(&'a str, Option<String>)>,
    /// does a successful step hand out the last split piece (model's `exhausted` becomes true)?
    exhausts: bool,
}

fn cstr(c: char, buf: &mut [u8; 4]) -> &str {
    c.encode_utf8(buf)
}

fn expect<'a>(rem: &'a str, op: Op) -> Expect<'a> {
    let mut b = [0u8; 4];
    let some = |r: &'a str| Expect { ok: Some((r, None)), exhausts: false };
    let opt = |r: Option<&'a str>| Expect { ok: r.map(|x| (x, None)), exhausts: false };
    match op {
        Op::Trim => some(kstr::trim(rem)),
        Op::TrimStart => some(kstr::trim_start(rem)),
        Op::TrimEnd => some(kstr::trim_end(rem)),
        Op::TrimMatches(n) => some(kstr::trim_matches(rem, n)),
        Op::TrimMatchesC(n) => some(kstr::trim_matches(rem, n)),
        Op::TrimStartMatches(n) => some(kstr::trim_start_matches(rem, n)),
        Op::TrimEndMatches(n) => some(kstr::trim_end_matches(rem, n)),
        Op::TrimEndMatchesC(n) => some(kstr::trim_end_matches(rem, n)),
        Op::StripPrefix(n) => opt(kstr::strip_prefix(rem, n)),
        Op::StripPrefixC(n) => opt(kstr::strip_prefix(rem, n)),
        Op::StripSuffix(n) => opt(kstr::strip_suffix(rem, n)),
        Op::StripSuffixC(n) => opt(kstr::strip_suffix(rem, n)),
        Op::FindSkip(n) => opt(kstr::find_skip(rem, n)),
        Op::FindSkipC(n) => opt(kstr::find_skip(rem, n)),
        Op::RFindSkip(n) => opt(kstr::rfind_skip(rem, n)),
        Op::RFindSkipC(n) => opt(kstr::rfind_skip(rem, n)),
        Op::Split(_) | Op::SplitC(_) => {
            let d: &str = match op {
                Op::Split(d) => d,
                Op::SplitC(c) => cstr(c, &mut b),
                _ => unreachable!(),
            };
            match kstr::split_once(rem, d) {
                Some((before, after)) => Expect { ok: Some((after, Some(format!("{:?}", before)))), exhausts: false },
                None => Expect { ok: Some((&rem[rem.len()..], Some(format!("{:?}", rem)))), exhausts: true },
            }
        }
        Op::RSplit(d) => match kstr::rsplit_once(rem, d) {
            Some((before, after)) => Expect { ok: Some((before, Some(format!("{:?}", after)))), exhausts: false },
            None => Expect { ok: Some((&rem[..0], Some(format!("{:?}", rem)))), exhausts: true },
        },
        Op::SplitKeep(d) => match kstr::find(rem, d) {
            Some(pos) => Expect { ok: Some((&rem[pos..], Some(format!("{:?}", &rem[..pos])))), exhausts: false },
            None => Expect { ok: Some((&rem[rem.len()..], Some(format!("{:?}", rem)))), exhausts: true },
        },
        Op::SplitTerminator(d) => match (rem.is_empty(), kstr::split_once(rem, d)) {
            (false, Some((before, after))) => Expect { ok: Some((after, Some(format!("{:?}", before)))), exhausts: after.is_empty() },
            _ => Expect { ok: None, exhausts: false },
        },
        Op::RSplitTerminator(d) => match (rem.is_empty(), kstr::rsplit_once(rem, d)) {
            (false, Some((before, after))) => Expect { ok: Some((before, Some(format!("{:?}", after)))), exhausts: before.is_empty() },
            _ => Expect { ok: None, exhausts: false },
        },
        Op::Skip(n) => {
            let mut k = n.min(rem.len());
            while !rem.is_char_boundary(k) {
                k += 1;
            }
            some(&rem[k..])
        }
        Op::SkipBack(n) => {
            let mut k = rem.len().saturating_sub(n);
            while !rem.is_char_boundary(k) {
                k -= 1;
            }
            some(&rem[..k])
        }
        Op::ParseU8 => {
            let r = ref_prefix::<u8>(rem, false);
            Expect { ok: r.map(|(v, rest)| (rest, Some(format!("{}", v)))), exhausts: false }
        }
        Op::ParseI8 => {
            let r = ref_prefix::<i8>(rem, true);
            Expect { ok: r.map(|(v, rest)| (rest, Some(format!("{}", v)))), exhausts: false }
        }
        Op::ParseU32 => {
            let r = ref_prefix::<u32>(rem, false);
            Expect { ok: r.map(|(v, rest)| (rest, Some(format!("{}", v)))), exhausts: false }
        }
        Op::ParseI64 => {
            let r = ref_prefix::<i64>(rem, true);
            Expect { ok: r.map(|(v, rest)| (rest, Some(format!("{}", v)))), exhausts: false }
        }
        Op::ParseBool => {
            let r = if let Some(x) = rem.strip_prefix("true") {
                Some((x, "true"))
            } else if let Some(x) = rem.strip_prefix("false") {
                Some((x, "false"))
            } else {
                None
            };
            Expect { ok: r.map(|(rest, v)| (rest, Some(v.to_string()))), exhausts: false }
        }
    }
}

fn ref_prefix<T: std::str::FromStr>(s: &str, signed: bool) -> Option<(T, &str)> {
    let b = s.as_bytes();
    let mut i = 0;
    if signed && b.first() == Some(&b'-') {
        i = 1;
    }
    let ds = i;
    while i < b.len() && b[i].is_ascii_digit() {
        i += 1;
    }
    if i == ds {
        return None;
    }
    s[..i].parse::<T>().ok().map(|v| (v, &s[i..]))
}

struct Ctx<'s> {
    s: &'s str,
    base: usize,
    c14: bool,
    hist: Vec<Op>,
}

/// C13 invariant monitor on a live parser
fn invariants(r: &mut Report, cx: &Ctx, p: Parser<'_>) -> bool {
    let (s, base) = (cx.s, cx.base);
    let (so, eo) = (p.start_offset(), p.end_offset());
    let rem = p.remainder();
    r.ev("invariant");
    mon_sub_str(r, "Parser::remainder", s, rem);
    let ok = base <= so
        && so <= eo
        && eo <= base + s.len()
        && s.is_char_boundary(so - base)
        && s.is_char_boundary(eo - base)
        && &s[so - base..eo - base] == rem
        && (rem.as_ptr() as usize == s.as_ptr() as usize + (so - base) || rem.is_empty() && so == eo)
        && p.len() == rem.len()
        && p.is_empty() == rem.is_empty();
    if !ok {
        r.fail(
            "C13:offsets-do-not-describe-remainder",
            "Parser",
            format!("s={:?} base={} history={:?}", s, base, cx.hist),
            format!("start_offset={} end_offset={} remainder={:?}@{:?} len={} is_empty={}", so, eo, rem, off_in(s, rem), p.len(), p.is_empty()),
            format!("remainder == s[start-base..end-base], offsets on char boundaries within {}..={}", base, base + s.len()),
        );
    }
    ok
}

fn dir_name(d: ParseDirection) -> &'static str {
    match d {
        ParseDirection::FromStart => "FromStart",
        ParseDirection::FromEnd => "FromEnd",
        ParseDirection::FromBoth => "FromBoth",
    }
}

/// one step: returns the new parser (and new exhausted flag) when the op succeeded
fn step<'a>(r: &mut Report, cx: &mut Ctx<'a>, p: Parser<'a>, exhausted: bool, op: Op) -> Option<(Parser<'a>, bool)> {
    cx.hist.push(op);
    let rem = p.remainder();
    let got = apply(p, op);
    r.ev(match (&got, is_split_family(op)) {
        (Got::Ok(..), true) => "step:split-family:Ok",
        (Got::Err(..), true) => "step:split-family:Err",
        (Got::Ok(..), false) => "step:other:Ok",
        (Got::Err(..), false) => "step:other:Err",
    });
    let mut out = None;
    match got {
        Got::Ok(np, val) => {
            let inv_ok = if !cx.c14 { invariants(r, cx, np) } else { true };
            let mut nexh = exhausted;
            if cx.c14 {
                let e = expect(rem, op);
                match &e.ok {
                    None => r.fail(
                        "C14:succeeded-where-free-function-finds-nothing",
                        "Parser",
                        format!("s={:?} history={:?} prev_remainder={:?}", cx.s, cx.hist, rem),
                        format!("Ok(remainder={:?}, value={:?})", np.remainder(), val),
                        "Err".into(),
                    ),
                    Some((wrem, wval)) => {
                        if np.remainder() != *wrem || (!wrem.is_empty() && off_in(cx.s, np.remainder()) != off_in(cx.s, wrem)) || (wval.is_some() && val != *wval) {
                            r.fail(
                                "C14:remainder-differs-from-free-function",
                                "Parser",
                                format!("s={:?} history={:?} prev_remainder={:?}", cx.s, cx.hist, rem),
                                format!("remainder={:?}@{:?} value={:?}", np.remainder(), off_in(cx.s, np.remainder()), val),
                                format!("remainder={:?}@{:?} value={:?}", wrem, off_in(cx.s, wrem), wval),
                            );
                        }
                        if is_split_family(op) && exhausted {
                            // model: the last piece was already handed out -> a split-family op must fail
                            r.fail(
                                "C14:split-after-exhaustion-succeeded",
                                "Parser",
                                format!("s={:?} history={:?} prev_remainder={:?}", cx.s, cx.hist, rem),
                                format!("Ok(value={:?})", val),
                                "Err(SplitExhausted)".into(),
                            );
                        }
                        nexh = exhausted || e.exhausts;
                    }
                }
            } else if is_split_family(op) {
                nexh = exhausted || expect(rem, op).exhausts;
            }
            if inv_ok {
                out = Some((np, nexh));
            }
        }
        Got::Err(e) => {
            if !cx.c14 {
                // C13 error monitor
                let sd = side(op);
                let (woff, wdir) = match sd {
                    Side::Start | Side::Both => (p.start_offset(), ParseDirection::FromStart),
                    Side::End => (p.end_offset(), ParseDirection::FromEnd),
                };
                r.ev("error-offset");
                if e.offset() != woff || e.error_direction() != wdir {
                    r.fail(
                        "C13:error-offset-or-direction",
                        "ParseError",
                        format!("s={:?} base={} history={:?} parser(start={}, end={})", cx.s, cx.base, cx.hist, p.start_offset(), p.end_offset()),
                        format!("offset={} direction={}", e.offset(), dir_name(e.error_direction())),
                        format!("offset={} direction={}", woff, dir_name(wdir)),
                    );
                }
            } else {
                let ex = expect(rem, op);
                let may_fail = if is_split_family(op) { exhausted || ex.ok.is_none() } else { ex.ok.is_none() };
                if !may_fail {
                    r.fail(
                        "C14:failed-where-free-function-finds-something",
                        "Parser",
                        format!("s={:?} history={:?} prev_remainder={:?} model_exhausted={}", cx.s, cx.hist, rem, exhausted),
                        format!("Err({:?})", e.kind()),
                        format!("Ok{:?}", ex.ok),
                    );
                }
            }
        }
    }
    cx.hist.pop();
    out
}

fn dfs<'a>(r: &mut Report, cx: &mut Ctx<'a>, p: Parser<'a>, exhausted: bool, depth: usize) {
    for &op in OPS {
        if let Some((np, ne)) = step(r, cx, p, exhausted, op) {
            if depth > 1 {
                dfs(r, cx, np, ne, depth - 1);
            }
            if depth == 1 && np.remainder().len() < p.remainder().len() && p.remainder().len() < cx.s.len() {
                r.nt(&(cx.s, cx.base, &format!("{:?}", cx.hist), format!("{:?}", op)));
            }
        }
    }
}

/// C14 pure protocols: repeating one split op until it fails
fn protocols(cfg: &Cfg) -> Report {
    let alpha = ["a", ",", "ñ"];
    let ss = strings_upto(&alpha, cfg.by(2, 6, 7));
    let delims = [",", "a", "ñ", ",,", "a,", ",a,", "ña"];
    par_for(cfg, ss.len(), |i, r| {
        let s: &str = &ss[i];
        for d in delims {
            macro_rules! proto {
                ($api:literal, $call:ident, $want:expr, $must_be_exhausted:expr) => {{
                    let want: Vec<&str> = $want;
                    let mut got: Vec<&str> = Vec::new();
                    let mut p = Parser::new(s);
                    let mut err: Option<ErrorKind> = None;
                    for _ in 0..40 {
                        match p.$call(d) {
                            Ok((x, np)) => {
                                got.push(x);
                                p = np;
                            }
                            Err(e) => {
                                err = Some(e.kind());
                                break;
                            }
                        }
                    }
                    r.evn(concat!("protocol:", $api), got.len() as u64 + 1);
                    let again = p.$call(d).is_err();
                    let kind_ok = !$must_be_exhausted || err == Some(ErrorKind::SplitExhausted);
                    if got != want || err.is_none() || !again || !kind_ok {
                        r.fail(concat!("C14:protocol:", $api), $api, format!("s={:?} delim={:?}", s, d), format!("pieces={:?} then {:?} (fails again: {})", got, err, again), format!("pieces={:?} then Err{}", want, if $must_be_exhausted { "(SplitExhausted)" } else { "" }));
                    }
                    if want.len() >= 2 {
                        r.nt(&($api, s, d));
                    }
                }};
            }
            proto!("split", split, s.split(d).collect(), true);
            proto!("rsplit", rsplit, s.rsplit(d).collect(), true);
            proto!("split_terminator", split_terminator, {
                let mut v: Vec<&str> = s.split(d).collect();
                v.pop();
                v
            }, false);
            proto!("rsplit_terminator", rsplit_terminator, {
                let mut v: Vec<&str> = s.rsplit(d).collect();
                v.pop();
                v
            }, false);
        }
        // char delimiters
        for c in [',', 'ñ'] {
            let mut buf = [0u8; 4];
            let d: &str = c.encode_utf8(&mut buf);
            let want: Vec<&str> = s.split(d).collect();
            let mut got: Vec<&str> = Vec::new();
            let mut p = Parser::new(s);
            let mut err = None;
            for _ in 0..40 {
                match p.split(c) {
                    Ok((x, np)) => {
                        got.push(x);
                        p = np;
                    }
                    Err(e) => {
                        err = Some(e.kind());
                        break;
                    }
                }
            }
            r.evn("protocol:split(char)", got.len() as u64 + 1);
            if got != want || err != Some(ErrorKind::SplitExhausted) {
                r.fail("C14:protocol:split(char)", "split", format!("s={:?} delim={:?}", s, c), format!("pieces={:?} then {:?}", got, err), format!("pieces={:?} then Err(SplitExhausted)", want));
            }
        }
        if i == 300 {
            r.sample(|| format!("protocol s={:?} x delimiters {:?}", s, delims));
        }
    })
}

pub fn run(cfg: &Cfg, c14: bool) -> (&'static str, Report, String, String) {
    let alpha = ["a", " ", ",", "ñ", "1", "-"];
    let (maxc, depth) = (cfg.by(1, 3, 4), cfg.by(2, 3, 3));
    let ss = strings_upto(&alpha, maxc);
    let bases: &[usize] = if c14 { &[0] } else if cfg.miri() { &[7] } else { &[0, 7] };
    let mut rep = par_for(cfg, ss.len(), |i, r| {
        for &base in bases {
            let mut cx = Ctx { s: &ss[i], base, c14, hist: Vec::new() };
            let p = if base == 0 { Parser::new(&ss[i]) } else { Parser::with_start_offset(&ss[i], base) };
            if !c14 {
                invariants(r, &cx, p);
            }
            dfs(r, &mut cx, p, false, depth);
        }
        if i == 100 {
            r.sample(|| format!("s={:?}: every history of depth <= {} over {} ops, e.g. {:?}", ss[i], depth, OPS.len(), &OPS[20..23]));
        }
    });
    // every UTF-8 width next to skip/skip_back/strip/split: a second, smaller exhaustive family
    let malpha = ["a", ",", "個", "🙂", "\u{ffff}", "\u{80}"];
    let ms = strings_upto(&malpha, cfg.by(1, 3, 3));
    rep.merge(par_for(cfg, ms.len(), |i, r| {
        for &base in bases {
            let mut cx = Ctx { s: &ms[i], base, c14, hist: Vec::new() };
            let p = if base == 0 { Parser::new(&ms[i]) } else { Parser::with_start_offset(&ms[i], base) };
            dfs(r, &mut cx, p, false, cfg.by(1, 2, 3));
        }
    }));
    // chars whose *last* UTF-8 byte is an ASCII whitespace byte with the high bit set (0x85, 0x89..0x8D, 0xA0)
    // or otherwise special as a lone byte: byte-wise trimming / matching must not cut through them
    let talpha = ["a", " ", "\u{85}", "\u{a0}", "à", "ą", "\u{2009}", "\u{200c}", "\u{200d}", "\u{1f9e0}"];
    let ts = strings_upto(&talpha, cfg.by(1, 3, 3));
    rep.merge(par_for(cfg, ts.len(), |i, r| {
        for &base in bases {
            let mut cx = Ctx { s: &ts[i], base, c14, hist: Vec::new() };
            let p = if base == 0 { Parser::new(&ts[i]) } else { Parser::with_start_offset(&ts[i], base) };
            dfs(r, &mut cx, p, false, cfg.by(1, 2, 2));
        }
    }));
    // numbers: leading zeros, the neighbours of the digits in the code table, values around the u8/i8 limits
    let nalpha = ["0", "1", "9", "-", ":", "25"];
    let ns = strings_upto(&nalpha, cfg.by(1, 4, 5));
    rep.merge(par_for(cfg, ns.len(), |i, r| {
        for &base in bases {
            let mut cx = Ctx { s: &ns[i], base, c14, hist: Vec::new() };
            let p = if base == 0 { Parser::new(&ns[i]) } else { Parser::with_start_offset(&ns[i], base) };
            dfs(r, &mut cx, p, false, cfg.by(1, 1, 2));
        }
    }));
    // long random histories
    let nrand = cfg.by(10, 20_000, 200_000);
    let walpha = ["a", " ", ",", "ñ", "1", "-", "2", "\t", "個", "true", "0", "007", "0255", ":", "4294967296", ",,", "\u{ffff}", "\u{8000}", "\u{800}", "\u{10ffff}", "\u{80}", "\u{fffd}"];
    rep.merge(par_for(cfg, nrand, |i, r| {
        let mut rng = Rng::new(cfg.seed.wrapping_mul(999_983).wrapping_add(i as u64));
        let s = random_string(&mut rng, &walpha, if i % 8 == 7 { cfg.by(20, 120, 200) } else { cfg.by(8, 24, 24) });
        let base = *rng.pick(&[0usize, 1, 7, 1000]);
        let mut cx = Ctx { s: &s, base: if c14 { 0 } else { base }, c14, hist: Vec::new() };
        let mut p = if cx.base == 0 { Parser::new(&s) } else { Parser::with_start_offset(&s, cx.base) };
        let mut exh = false;
        let n = 1 + rng.below(cfg.by(10, 40, 40));
        let mut trail: Vec<Op> = Vec::new();
        for _ in 0..n {
            let op = *rng.pick(OPS);
            cx.hist = trail.clone();
            if let Some((np, ne)) = step(r, &mut cx, p, exh, op) {
                p = np;
                exh = ne;
                trail.push(op);
            }
        }
        if trail.len() >= 4 {
            r.nt(&(&s, base, format!("{:?}", trail)));
        }
        if i == 5 {
            r.sample(|| format!("random history s={:?} base={} successful ops={:?}", s, base, trail));
        }
    }));
    if c14 {
        rep.merge(protocols(cfg));
        (
            "C14",
            rep,
            format!("all histories of depth <= {} over {} concrete ops on all {} strings (<= {} chars over {{a,' ',',',ñ,1,-}}); {} random histories (<= 40 ops, strings <= 24 pieces); pure split/rsplit/split_terminator/rsplit_terminator protocols over all strings <= {} chars over {{a,',',ñ}} x 7 str + 2 char delimiters", depth, OPS.len(), ss.len(), maxc, nrand, cfg.by(3, 6, 7)),
            "one evaluation = one Parser step compared with the free konst::string function applied to the previous remainder (new remainder by value and position, piece/value handed out, success iff the free function finds something; split-family ops against a sequential model with the sticky `last piece handed out` flag), or one step of a pure split protocol compared with str::split/rsplit (then SplitExhausted, and failing again); non-trivial = distinct (string,history) whose last op shrinks an already shrunk remainder, protocols with >= 2 pieces".into(),
        )
    } else {
        (
            "C13",
            rep,
            format!("all histories of depth <= {} over {} concrete ops on all {} strings (<= {} chars over {{a,' ',',',ñ,1,-}}) from Parser::new and Parser::with_start_offset(_, 7); {} random histories (<= 40 ops, strings <= 24 pieces, base in {{0,1,7,1000}})", depth, OPS.len(), ss.len(), maxc, nrand),
            "one evaluation = one Parser step followed by the invariant monitor (base <= start <= end <= base+len, both on char boundaries, original[start-base..end-base] is the remainder by value and address, len/is_empty agree) or, for a failing step, the error monitor (offset = start offset for from-start ops / end offset for from-end ops of the parser it was called on, direction names that end); non-trivial = distinct (string,base,history) whose last op shrinks an already shrunk remainder".into(),
        )
    }
}
