//! C06 – string split iterators yield exactly the pieces std's split family yields;
//! remainder after every step; rev() swaps to the r-counterpart.
use crate::common::*;
use konst::string as kstr;
use konst::string::Pattern;

const FUEL: usize = 400;

#[derive(Clone, Copy, PartialEq)]
enum Dir {
    Fwd,
    Bwd,
}

/// Checks one konst iteration (given as a step closure over a boxed state) against the expected
/// piece sequence and the remainder rule.
fn check_seq<'a>(
    r: &mut Report,
    api: &'static str,
    input: &'a str,
    dlen: usize,
    dir: Dir,
    want: &[&'a str],
    inp: &dyn Fn() -> String,
    mut step: impl FnMut() -> Option<(&'a str, &'a str)>, // (piece, remainder after the step)
    first_rem: &'a str,
) {
    let len = input.len();
    if first_rem != input {
        r.fail(api, api, inp(), format!("initial remainder {:?}", first_rem), format!("{:?}", input));
    }
    let mut got: Vec<&str> = Vec::new();
    let mut consumed = 0usize;
    let mut k = 0usize;
    loop {
        if k > FUEL {
            r.fail(api, api, inp(), format!("more than {} pieces: {:?}", FUEL, got), format!("{:?}", want));
            return;
        }
        let st = match catch(|| step()) {
            Ok(x) => x,
            Err(()) => {
                r.fail(api, api, format!("{} step {} (pieces so far {:?})", inp(), k + 1, got), "<panic>".into(), format!("{:?}", want.get(k)));
                return;
            }
        };
        match st {
            None => break,
            Some((piece, rem)) => {
                r.ev(intern(&format!("{}:step", api)));
                mon_sub_str(r, api, input, piece);
                mon_sub_str(r, api, input, rem);
                got.push(piece);
                k += 1;
                consumed += piece.len();
                let used = (consumed + k * dlen).min(len);
                // remainder = the not-yet-split part of the input
                let (want_rem, want_pos) = match dir {
                    Dir::Fwd => (&input[used..], used),
                    Dir::Bwd => (&input[..len - used], 0),
                };
                let pos_ok = rem.is_empty() || off_in(input, rem) == Some(want_pos);
                if rem != want_rem || !pos_ok {
                    r.fail(
                        intern(&format!("{}.remainder", api)),
                        api,
                        format!("{} after step {} (pieces so far {:?})", inp(), k, got),
                        format!("{:?}@{:?}", rem, off_in(input, rem)),
                        format!("{:?}@{}", want_rem, want_pos),
                    );
                    return;
                }
                // the piece itself must sit where std's piece sits
                if let Some(w) = want.get(k - 1) {
                    if piece != *w || (!piece.is_empty() && off_in(input, piece) != off_in(input, w)) {
                        r.fail(api, api, format!("{} step {}", inp(), k), format!("{:?}@{:?}", piece, off_in(input, piece)), format!("{:?}@{:?}", w, off_in(input, w)));
                        return;
                    }
                }
            }
        }
    }
    if got != want {
        r.fail(api, api, inp(), format!("{:?}", got), format!("{:?}", want));
    }
    // an exhausted iterator stays exhausted
    if !matches!(catch(|| step()), Ok(None)) {
        r.fail(api, api, inp(), "yielded again (or panicked) after returning None".into(), "None".into());
    }
}

fn one<'a, 'p, P: Pattern<'p>>(r: &mut Report, kind: &'static str, s: &'a str, p: P, d: &str) {
    let inp = || format!("kind={} input={:?} delim={:?}", kind, s, d);
    let w_split: Vec<&str> = s.split(d).collect();
    let w_rsplit: Vec<&str> = s.rsplit(d).collect();
    let w_term: Vec<&str> = s.split_terminator(d).collect();
    let mut w_rterm = w_rsplit.clone();
    if w_rterm.last() == Some(&"") {
        w_rterm.pop();
    }
    let dl = d.len();

    // split
    let mut it = kstr::split(s, p);
    let fr = it.remainder();
    check_seq(r, "split", s, dl, Dir::Fwd, &w_split, &inp, || {
        let c = it.copy();
        c.next().map(|(x, n)| {
            it = n;
            (x, it.remainder())
        })
    }, fr);
    // rsplit
    let mut it = kstr::rsplit(s, p);
    let fr = it.remainder();
    check_seq(r, "rsplit", s, dl, Dir::Bwd, &w_rsplit, &inp, || {
        let c = it.copy();
        c.next().map(|(x, n)| {
            it = n;
            (x, it.remainder())
        })
    }, fr);
    // split(..).rev() == rsplit, rsplit(..).rev() == split
    let mut it = kstr::split(s, p).rev();
    let fr = it.remainder();
    check_seq(r, "split.rev", s, dl, Dir::Bwd, &w_rsplit, &inp, || {
        let c = it.copy();
        c.next().map(|(x, n)| {
            it = n;
            (x, it.remainder())
        })
    }, fr);
    let mut it = kstr::rsplit(s, p).rev();
    let fr = it.remainder();
    check_seq(r, "rsplit.rev", s, dl, Dir::Fwd, &w_split, &inp, || {
        let c = it.copy();
        c.next().map(|(x, n)| {
            it = n;
            (x, it.remainder())
        })
    }, fr);
    // next_back on Split == next on RSplit
    let mut it = kstr::split(s, p);
    let fr = it.remainder();
    check_seq(r, "split.next_back", s, dl, Dir::Bwd, &w_rsplit, &inp, || {
        let c = it.copy();
        c.next_back().map(|(x, n)| {
            it = n;
            (x, it.remainder())
        })
    }, fr);
    let mut it = kstr::rsplit(s, p);
    let fr = it.remainder();
    check_seq(r, "rsplit.next_back", s, dl, Dir::Fwd, &w_split, &inp, || {
        let c = it.copy();
        c.next_back().map(|(x, n)| {
            it = n;
            (x, it.remainder())
        })
    }, fr);
    // terminator forms
    let mut it = kstr::split_terminator(s, p);
    let fr = it.remainder();
    check_seq(r, "split_terminator", s, dl, Dir::Fwd, &w_term, &inp, || {
        let c = it.copy();
        c.next().map(|(x, n)| {
            it = n;
            (x, it.remainder())
        })
    }, fr);
    let mut it = kstr::rsplit_terminator(s, p);
    let fr = it.remainder();
    check_seq(r, "rsplit_terminator", s, dl, Dir::Bwd, &w_rterm, &inp, || {
        let c = it.copy();
        c.next().map(|(x, n)| {
            it = n;
            (x, it.remainder())
        })
    }, fr);

    if w_split.len() >= 3 || (w_split.len() >= 2 && w_split.iter().any(|x| x.is_empty())) {
        r.nt(&(kind, s, d));
    }
}

/// Mixed-end iteration: std's `Split<char>` / `RSplit<char>` are double-ended, so every schedule of
/// front and back steps (bit i of `mask` = step i pulls from the back) has a std answer; konst's
/// `next` / `next_back` must give the same piece at the same position at every step, incl. the final `None`s.
fn mixed(r: &mut Report, s: &str, c: char) {
    let np = s.split(c).count();
    if np > 5 {
        return;
    }
    for mask in 0u32..(1 << (np + 1)) {
        let (mut k, mut st) = (kstr::split(s, c), s.split(c));
        let (mut rk, mut rst) = (kstr::rsplit(s, c), s.rsplit(c));
        for i in 0..=np {
            let back = (mask >> i) & 1 == 1;
            let res = catch(|| {
                let kv = if back { k.copy().next_back() } else { k.copy().next() }.map(|(x, n)| {
                    k = n;
                    x
                });
                let rkv = if back { rk.copy().next_back() } else { rk.copy().next() }.map(|(x, n)| {
                    rk = n;
                    x
                });
                (kv, rkv)
            });
            let (sv, rsv) = if back { (st.next_back(), rst.next_back()) } else { (st.next(), rst.next()) };
            r.ev("split.mixed:step");
            r.ev("rsplit.mixed:step");
            let same = |a: Option<&str>, b: Option<&str>| match (a, b) {
                (Some(x), Some(y)) => x == y && (x.is_empty() || off_in(s, x) == off_in(s, y)),
                (None, None) => true,
                _ => false,
            };
            match res {
                Ok((kv, rkv)) => {
                    for (api, g, w) in [("split.mixed", kv, sv), ("rsplit.mixed", rkv, rsv)] {
                        if let Some(x) = g {
                            mon_sub_str(r, api, s, x);
                        }
                        if !same(g, w) {
                            r.fail(api, api, format!("kind=char input={:?} delim={:?} schedule(bit i set = step i from the back)={:#b} step {}", s, c, mask, i), format!("{:?}", g), format!("{:?}", w));
                        }
                    }
                    if !same(kv, sv) || !same(rkv, rsv) {
                        break;
                    }
                }
                Err(()) => {
                    r.fail("split.mixed", "split.mixed", format!("kind=char input={:?} delim={:?} schedule={:#b} step {}", s, c, mask, i), "<panic>".into(), format!("{:?} / {:?}", sv, rsv));
                    break;
                }
            }
        }
    }
}

fn pair(r: &mut Report, s: &str, d: &str) {
    one(r, "&str", s, d, d);
    let mut cs = d.chars();
    if let (Some(c), None) = (cs.next(), cs.next()) {
        one(r, "char", s, c, d);
        mixed(r, s, c);
    }
}

pub fn run(cfg: &Cfg) -> (&'static str, Report, String, String) {
    let alpha = ["a", "b", "ñ"];
    let (sl, dl) = (cfg.by(2, 6, 8), cfg.by(2, 3, 3));
    let ss = strings_upto(&alpha, sl);
    let ds = strings_upto(&alpha, dl);
    let mut rep = par_for(cfg, ss.len(), |i, r| {
        for d in &ds {
            pair(r, &ss[i], d);
        }
        if i == 700 {
            r.sample(|| format!("input={:?} x all {} delimiters (<= {} chars over {{a,b,ñ}}, incl. \"\"), &str and char kinds; split/rsplit/rev/next_back/split_terminator/rsplit_terminator", ss[i], ds.len(), dl));
        }
    });
    // every UTF-8 length under the empty delimiter and as a char delimiter
    let s4 = strings_upto(&crate::c03::SIGMA4, cfg.by(1, 4, 5));
    let d4 = ["", "a", "ñ", "個", "🙂", "🙂a", "個個"];
    rep.merge(par_for(cfg, s4.len(), |i, r| {
        for d in &d4 {
            pair(r, &s4[i], d);
        }
    }));
    // every lead-byte class under the empty delimiter / as a char delimiter / next to an ASCII delimiter
    let mut la: Vec<&str> = LEADS.to_vec();
    la.extend(LEADS_HI3);
    la.extend(ASCII_EDGES);
    la.push(",");
    let ls = strings_upto(&la, cfg.by(1, 3, 3));
    let ld: Vec<&str> = if cfg.miri() { vec!["", ","] } else { vec!["", ",", "\u{ffff}", "\u{8000}", "\u{800}", "\u{10ffff}", "a\u{fffd}"] };
    rep.merge(par_for(cfg, ls.len(), |i, r| {
        for d in &ld {
            pair(r, &ls[i], d);
        }
    }));
    // planted: a one-byte delimiter d directly next to its bit-neighbours (d^1, d+1, d-1: the bytes a
    // word-at-a-time "has this byte" test confuses with d), at every offset of filler strings of 8..=L bytes,
    // with one or two occurrences of d
    let maxl = cfg.by(9, 26, 40);
    rep.merge(par_for(cfg, maxl + 1, |l, r| {
        if l < 2 {
            return;
        }
        for d in [b',', b'/', b' ', b'a'] {
            for nb in [d ^ 1, d + 1, d - 1] {
                for p in 0..l - 1 {
                    if cfg.miri() && p % 7 != 0 {
                        continue;
                    }
                    for order in 0..2 {
                        let mut h = vec![b'x'; l];
                        let (a, b) = if order == 0 { (d, nb) } else { (nb, d) };
                        h[p] = a;
                        h[p + 1] = b;
                        let s = String::from_utf8(h.clone()).unwrap();
                        let ds = (d as char).to_string();
                        pair(r, &s, &ds);
                        // a second, clean occurrence further left / right
                        if p >= 3 {
                            h[p - 3] = d;
                            pair(r, core::str::from_utf8(&h).unwrap(), &ds);
                        }
                    }
                }
            }
        }
        r.ev("planted-byte-neighbours");
    }));
    // long delimiters (word-at-a-time comparisons of the delimiter itself: 8/9/16/17/33 bytes), 0..=3 occurrences,
    // inputs ending in a piece, in the delimiter, or in a near miss
    let longd = ["<=sep=>!", "<=sep===>", ", and then ", "0123456789abcdef", "0123456789abcdefg", "\u{2192}\u{2192}\u{2192}", "abcdefghijklmnopqrstuvwxyz0123456"];
    rep.merge(par_for(cfg, longd.len(), |w, r| {
        if cfg.miri() && w != 1 {
            return;
        }
        let d = longd[w];
        let miss = &d[..d.char_indices().last().unwrap().0];
        for pieces in [&["alpha"][..], &["alpha", "beta"], &["alpha", "beta", "gamma"], &["", "x", ""], &["a", "", "b", ""]] {
            let joined = pieces.join(d);
            for tail in ["", d, miss, "z"] {
                let s = format!("{}{}", joined, tail);
                pair(r, &s, d);
                let s2 = format!("{}{}{}", miss, joined, tail);
                pair(r, &s2, d);
            }
        }
        r.ev("long-delimiters");
    }));
    let nrand = cfg.by(3, 1500, 10000);
    rep.merge(par_for(cfg, nrand, |i, r| {
        let mut rng = Rng::new(cfg.seed.wrapping_mul(104_729).wrapping_add(i as u64));
        let al: &[&str] = if rng.chance(1, 2) { &[",", "a"] } else { &[",", "a", "ñ", ";"] };
        let s = random_string(&mut rng, al, if i % 8 == 7 { cfg.by(30, 200, 300) } else { cfg.by(10, 40, 40) });
        let d = random_string(&mut rng, al, 3);
        if s.split(d.as_str()).count() < FUEL {
            pair(r, &s, &d);
        }
        if i == 1 {
            r.sample(|| format!("random input={:?} delim={:?}", s, d));
        }
    }));
    (
        "C06",
        rep,
        format!("all {} strings (<= {} chars) x {} delimiters (<= {} chars, incl. empty) over {{a,b,ñ}}, &str and char delimiter kinds; all {} strings over {{a,ñ,個,🙂}} x 7 delimiters; {} seeded random (<= 40 chars, one in eight <= 300); planted: one-byte delimiters {{',','/',' ','a'}} next to their bit-neighbours (d^1, d+1, d-1) at every offset of filler strings of 2..={} bytes", ss.len(), sl, ds.len(), dl, s4.len(), nrand, maxl),
        "one evaluation = one iterator step (piece + remainder after the step) of split / rsplit / split().rev() / rsplit().rev() / next_back of both / split_terminator / rsplit_terminator / every front-back schedule of split and rsplit with a char delimiter (<= 6 pieces; std's Split<char> is double-ended), each iteration compared piece-by-piece (value and position) with str::split / rsplit / split_terminator (rsplit_terminator: rsplit minus a final \"\"), remainder = not-yet-split part at the position computed from the pieces yielded so far; exhausted iterators must stay exhausted; non-trivial = distinct (kind,input,delimiter) with >= 3 pieces or an empty piece among >= 2".into(),
    )
}
