//! C01 – extras of the "unsafe inventory": the safe functions and macros sitting on an unsafe
//! block that no other sub-command drives (maybe_uninit, manually_drop, ptr, from_utf8,
//! DSL over
//! mutable slices, try_into_array on Drop/ZST element types ...).
//! The C01 check runs this together with c02..c20 under Miri (both aliasing models), natively in
//! all build variants (boundary monitors, std ub_checks), and the CTFE programs (gen/gen_c01.py).
use crate::common::*;
use crate::ledger::{self, take_log, Tok};
use core::mem::{ManuallyDrop, MaybeUninit};
use core::ptr::NonNull;

fn maybe_uninit_and_friends(r: &mut Report) {
    // uninit_array / UNINIT_ARRAY / write / as_mut_ptr / array_assume_init
    macro_rules! forn {
        ($($n:literal)*) => {$({
            let mut a: [MaybeUninit<String>; $n] = konst::maybe_uninit::uninit_array();
            for (i, slot) in a.iter_mut().enumerate() {
                let w = konst::maybe_uninit::write(slot, format!("v{}", i));
                w.push('!');
            }
            let arr: [String; $n] = unsafe { konst::maybe_uninit::array_assume_init(a) };
            r.ev("maybe_uninit::write+array_assume_init");
            let want: [String; $n] = core::array::from_fn(|i| format!("v{}!", i));
            r.eq("maybe_uninit", || format!("N={}", $n), &arr, &want);
            let mut b: [MaybeUninit<u64>; $n] = konst::maybe_uninit::UNINIT_ARRAY::V;
            for (i, slot) in b.iter_mut().enumerate() {
                let p = konst::maybe_uninit::as_mut_ptr(slot);
                unsafe { p.write(i as u64 * 9) };
            }
            let arr: [u64; $n] = unsafe { konst::maybe_uninit::array_assume_init(b) };
            r.ev("maybe_uninit::as_mut_ptr");
            r.eq("maybe_uninit::as_mut_ptr", || format!("N={}", $n), &arr, &core::array::from_fn(|i| i as u64 * 9));
            // zero-sized / Drop elements
            let z: [MaybeUninit<()>; $n] = konst::maybe_uninit::uninit_array();
            let _z: [(); $n] = unsafe { konst::maybe_uninit::array_assume_init(z) };
            r.ev("maybe_uninit::zst");
        })*};
    }
    forn!(0 1 2 5);
    let mut single: MaybeUninit<Box<u32>> = konst::maybe_uninit::UNINIT::V;
    let w = konst::maybe_uninit::write(&mut single, Box::new(5));
    **w += 1;
    let v = unsafe { single.assume_init() };
    r.ev("maybe_uninit::UNINIT");
    r.eq("maybe_uninit::UNINIT", || "Box".into(), &*v, &6);

    // manually_drop
    let mut md = ManuallyDrop::new(String::from("abc"));
    r.ev("manually_drop::as_inner");
    r.eq("manually_drop::as_inner", || "String".into(), konst::manually_drop::as_inner(&md), &String::from("abc"));
    konst::manually_drop::as_inner_mut(&mut md).push('d');
    r.ev("manually_drop::as_inner_mut");
    r.eq("manually_drop::as_inner_mut", || "String".into(), &*md, &String::from("abcd"));
    let s = unsafe { konst::manually_drop::take(&mut md) };
    drop(s);

    // ptr / nonnull at run time: null, dangling-aligned, in-bounds, one-past-the-end, wrapping out-of-bounds
    let x = [1u32, 2, 3];
    let base = x.as_ptr();
    #[allow(deprecated)]
    {
        let cases: [(*const u32, bool); 5] = [
            (core::ptr::null(), true),
            (NonNull::<u32>::dangling().as_ptr() as *const u32, false),
            (base, false),
            (base.wrapping_add(3), false),
            (base.wrapping_add(1000), false),
        ];
        for (p, want_null) in cases {
            r.ev("ptr::is_null");
            r.eq("ptr::is_null", || format!("{:?}", p), &konst::ptr::is_null(p), &want_null);
            let g = konst::ptr::nonnull::new(p as *mut u32);
            r.ev("ptr::nonnull::new");
            r.eq("ptr::nonnull::new", || format!("{:?}", p), &g.map(|n| n.as_ptr() as *const u32), &(if want_null { None } else { Some(p) }));
        }
        // unsized pointee
        let sp: *const [u32] = &x[..];
        r.ev("ptr::is_null(slice)");
        r.eq("ptr::is_null", || "slice ptr".into(), &konst::ptr::is_null(sp), &false);
        let np: *const [u32] = core::ptr::slice_from_raw_parts(core::ptr::null(), 3);
        r.ev("ptr::is_null(null slice)");
        r.eq("ptr::is_null", || "null slice ptr".into(), &konst::ptr::is_null(np), &true);
    }
    let mut y = 7u64;
    let n1 = konst::ptr::nonnull::from_ref(&y);
    r.ev("ptr::nonnull::from_ref");
    r.eq("nonnull::from_ref", || "u64".into(), &unsafe { *n1.as_ref() }, &7);
    let mut n2 = konst::ptr::nonnull::from_mut(&mut y);
    unsafe { *n2.as_mut() += 1 };
    r.ev("ptr::nonnull::from_mut");
    r.eq("nonnull::from_mut", || "u64".into(), &y, &8);
    let sref: &[u8] = &[1, 2, 3];
    let n3 = konst::ptr::nonnull::from_ref(sref);
    r.ev("ptr::nonnull::from_ref(slice)");
    r.eq("nonnull::from_ref", || "slice".into(), &unsafe { n3.as_ref() }, &sref);
    unsafe {
        r.ev("ptr::as_ref");
        r.eq("ptr::as_ref", || "in-bounds".into(), &konst::ptr::as_ref(base), &Some(&1u32));
        r.eq("ptr::as_ref", || "null".into(), &konst::ptr::as_ref(core::ptr::null::<u32>()), &None);
        let mut z = 3u8;
        r.ev("ptr::as_mut");
        r.eq("ptr::as_mut", || "valid".into(), &konst::ptr::as_mut(&mut z as *mut u8).map(|v| *v), &Some(3u8));
        r.eq("ptr::as_mut", || "null".into(), &konst::ptr::as_mut(core::ptr::null_mut::<u8>()).map(|v| *v), &None);
        r.ev("ptr::nonnull::as_ref/as_mut");
        let mut q = 40u64;
        let nq = konst::ptr::nonnull::from_mut(&mut q);
        *konst::ptr::nonnull::as_mut(nq) += 2;
        r.eq("nonnull::as_mut", || "valid".into(), konst::ptr::nonnull::as_ref(nq), &42u64);
    }
}

fn utf8(r: &mut Report, cfg: &Cfg) {
    // from_utf8 over all byte strings of length <= 3/4 from a set containing every UTF-8 byte class
    let alpha = [0x00u8, 0x61, 0x7F, 0x80, 0xBF, 0xC0, 0xC2, 0xDF, 0xE0, 0xE1, 0xED, 0xEF, 0xF0, 0xF4, 0xF5, 0xFF, 0x9F, 0xA0, 0x90, 0x8F];
    let all = bytes_upto(&alpha, cfg.by(2, 3, 4));
    for (i, b) in all.iter().enumerate() {
        if !cfg.mine(i) {
            continue;
        }
        let ge = konst::string::from_utf8(b).map_err(|e| (e.0.valid_up_to(), e.0.error_len())).err();
        let we = core::str::from_utf8(b).map_err(|e| (e.valid_up_to(), e.error_len())).err();
        if ge != we {
            r.fail("from_utf8.error", "from_utf8", format!("{:?}", b), format!("{:?}", ge), format!("{:?}", we));
        }
        let g = konst::string::from_utf8(b).ok();
        let w = core::str::from_utf8(b).ok();
        r.ev(if w.is_some() { "from_utf8:Ok" } else { "from_utf8:Err" });
        if let Some(s) = g {
            r.boundary_checks += 1;
            if core::str::from_utf8(s.as_bytes()).is_err() {
                r.fail("C01:invalid-utf8", "string::from_utf8", format!("{:?}", b), format!("{:?}", s.as_bytes()), "valid UTF-8".into());
                continue;
            }
            mon_sub_slice(r, "string::from_utf8", b, s.as_bytes());
        }
        if g != w {
            r.fail("from_utf8", "from_utf8", format!("{:?}", b), format!("{:?}", g), format!("{:?}", w));
        }
        if w.is_some() && b.len() >= 2 && b.iter().any(|x| *x >= 0x80) {
            r.nt(&b);
        }
    }
}

/// macro forms wrapping unsafe blocks, evaluated at run time inside ordinary fns (Miri sees them)
fn macro_forms(r: &mut Report) {
    // (the const-only macro forms - collect_const!, str_concat!, str_join!, from_iter!, slice_concat! - live in the
    // generated CTFE crate of gen_c01: a const item here would make the whole harness unbuildable, and every check
    // INCONCLUSIVE, whenever a change breaks their const evaluation)
    // runtime evaluation of the iterator DSL over slices of Drop / zero-sized elements
    let toks: [Tok; 4] = core::array::from_fn(|i| Tok::new(i as u32));
    let mut seen = Vec::new();
    konst::iter::for_each! {t in &toks, rev() => seen.push(t.id);}
    r.ev("for_each!(&[Tok])");
    r.eq("for_each!", || "rev over Tok".into(), &seen, &vec![3, 2, 1, 0]);
    let n = konst::iter::eval!(&[(); 5], skip(1), count());
    r.ev("eval!(&[()])");
    r.eq("eval!", || "zst count".into(), &n, &4);
    drop(toks);
    let _ = take_log();
    // try_into_array on Drop / zero-sized elements, shared and mut
    let mut v: Vec<Tok> = (0..3).map(Tok::new).collect();
    let a = konst::slice::try_into_array::<Tok, 3>(&v).ok().map(|a| a.len());
    r.ev("try_into_array(Tok)");
    r.eq("try_into_array", || "Tok".into(), &a, &Some(3));
    if let Ok(m) = konst::slice::try_into_array_mut::<Tok, 3>(&mut v) {
        m.swap(0, 2);
    }
    r.ev("try_into_array_mut(Tok)");
    r.eq("try_into_array_mut", || "Tok swap".into(), &v.iter().map(|t| t.id).collect::<Vec<_>>(), &vec![2, 1, 0]);
    drop(v);
    let _ = take_log();
    let z = [(); 4];
    r.ev("try_into_array(zst)");
    r.eq("try_into_array", || "zst".into(), &konst::slice::try_into_array::<(), 4>(&z).is_ok(), &true);
    r.eq("try_into_array", || "zst wrong len".into(), &konst::slice::try_into_array::<(), 3>(&z).is_ok(), &false);
    // chars of every encoded length through as_str
    for c in ['a', 'ñ', '個', '🙂', '\0', '\u{10FFFF}'] {
        let e = konst::chr::encode_utf8(c);
        r.ev("chr::encode_utf8.as_str");
        r.boundary_checks += 1;
        if core::str::from_utf8(e.as_str().as_bytes()).is_err() || e.as_str().chars().next() != Some(c) {
            r.fail("C01:invalid-utf8", "chr::encode_utf8", format!("{:?}", c), format!("{:?}", e.as_bytes()), "the char's UTF-8".into());
        }
    }
    r.nt(&"macro-forms");
    r.nt(&"macro-forms-2");
}

pub fn run(cfg: &Cfg) -> (&'static str, Report, String, String) {
    ledger::set_protect(!(cfg.miri() || std::env::var_os("KV_RAW_DROPS").is_some()));
    let mut rep = Report::new();
    if cfg.mine(0) {
        maybe_uninit_and_friends(&mut rep);
        macro_forms(&mut rep);
    }
    utf8(&mut rep, cfg);
    (
        "C01",
        rep,
        "maybe_uninit (uninit_array/UNINIT/UNINIT_ARRAY/write/as_mut_ptr/array_assume_init for N in {0,1,2,5}, String/u64/()/Box), manually_drop, ptr::is_null/nonnull::new on null/dangling/in-bounds/one-past/out-of-bounds pointers incl. slice pointers, nonnull::from_ref/from_mut/as_ref/as_mut, from_utf8 over all byte strings (<= 3 or 4 bytes) of 20 bytes covering every UTF-8 byte class, DSL over Drop/ZST elements, try_into_array(_mut) on Drop/ZST elements".into(),
        "one evaluation = one call of a safe function or macro that wraps an unsafe block, compared with its std counterpart; the deciding oracle for C01 is the engine the workload runs under (Miri / rustc const evaluation / std ub_checks) plus the containment + UTF-8 monitors; non-trivial = distinct valid multi-byte from_utf8 inputs and the macro-form groups".into(),
    )
}
