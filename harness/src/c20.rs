use crate::common::*;
pub fn run(_cfg: &Cfg) -> (&'static str, Report, String, String) { ("C20", Report::new(), String::new(), String::new()) }
