//! C20 (run-time half) – CStr constructors/conversions equal std's.
//! The concat/join/from_iter/slice_concat half needs constants and lives in the generated
//! programs (gen/gen_c20.py).
use crate::common::*;
use core::ffi::CStr;
use konst::ffi::cstr as kc;

fn one(r: &mut Report, b: &[u8]) {
    let inp = || format!("bytes={:?}", b);
    // from_bytes_until_nul
    let g = kc::from_bytes_until_nul(b).ok();
    let w = CStr::from_bytes_until_nul(b).ok();
    r.ev(if w.is_some() { "from_bytes_until_nul:Ok" } else { "from_bytes_until_nul:Err" });
    if g != w {
        r.fail("from_bytes_until_nul", "from_bytes_until_nul", inp(), format!("{:?}", g), format!("{:?}", w));
    }
    if let Some(c) = g {
        // the returned CStr borrows from the input (C01 containment)
        mon_sub_slice(r, "cstr::from_bytes_until_nul", b, c.to_bytes_with_nul());
        conversions(r, b, c);
    }
    // from_bytes_with_nul
    let g = kc::from_bytes_with_nul(b).ok();
    let w = CStr::from_bytes_with_nul(b).ok();
    r.ev(if w.is_some() { "from_bytes_with_nul:Ok" } else { "from_bytes_with_nul:Err" });
    if g != w {
        r.fail("from_bytes_with_nul", "from_bytes_with_nul", inp(), format!("{:?}", g), format!("{:?}", w));
    }
    if let Some(c) = g {
        mon_sub_slice(r, "cstr::from_bytes_with_nul", b, c.to_bytes_with_nul());
        conversions(r, b, c);
    }
    let nuls = b.iter().filter(|&&x| x == 0).count();
    if nuls >= 1 && b.len() >= 2 {
        r.nt(&b);
    }
}

fn conversions(r: &mut Report, b: &[u8], c: &CStr) {
    let inp = || format!("bytes={:?} cstr={:?}", b, c);
    let g = kc::to_bytes(c);
    mon_sub_slice(r, "cstr::to_bytes", b, g);
    r.ev("to_bytes");
    if g != c.to_bytes() || (!g.is_empty() && g.as_ptr() != c.to_bytes().as_ptr()) {
        r.fail("to_bytes", "to_bytes", inp(), format!("{:?}", g), format!("{:?}", c.to_bytes()));
    }
    let g = kc::to_bytes_with_nul(c);
    mon_sub_slice(r, "cstr::to_bytes_with_nul", b, g);
    r.ev("to_bytes_with_nul");
    if g != c.to_bytes_with_nul() || g.as_ptr() != c.to_bytes_with_nul().as_ptr() {
        r.fail("to_bytes_with_nul", "to_bytes_with_nul", inp(), format!("{:?}", g), format!("{:?}", c.to_bytes_with_nul()));
    }
    // the error is std's Utf8Error (wrapped): "equal std's" includes where the valid prefix ends and how long
    // the offending sequence is
    let ge = kc::to_str(c).map_err(|e| (e.0.valid_up_to(), e.0.error_len())).err();
    let we = c.to_str().map_err(|e| (e.valid_up_to(), e.error_len())).err();
    if ge != we {
        r.fail("to_str.error", "to_str", inp(), format!("{:?}", ge), format!("{:?}", we));
    }
    let g = kc::to_str(c).ok();
    let w = c.to_str().ok();
    r.ev(if w.is_some() { "to_str:Ok" } else { "to_str:Err" });
    if let Some(s) = g {
        r.boundary_checks += 1;
        if core::str::from_utf8(s.as_bytes()).is_err() {
            r.fail("C01:invalid-utf8", "cstr::to_str", inp(), format!("{:?}", s.as_bytes()), "valid UTF-8".into());
            return;
        }
    }
    if g != w {
        r.fail("to_str", "to_str", inp(), format!("{:?}", g), format!("{:?}", w));
    }
}

pub fn run(cfg: &Cfg) -> (&'static str, Report, String, String) {
    let alpha = [0u8, b'a', 0xFF];
    let all = bytes_upto(&alpha, cfg.by(4, 6, 8));
    let mut rep = par_for(cfg, all.len(), |i, r| {
        one(r, &all[i]);
        if i == 200 {
            r.sample(|| format!("bytes={:?}", all[i]));
        }
    });
    // valid multi-byte UTF-8 and truncated sequences before the nul
    let alpha2 = [0u8, 0xC3, 0xB1, b'x', 0xE5, 0xF0, 0x9F];
    let all2 = bytes_upto(&alpha2, cfg.by(3, 5, 6));
    rep.merge(par_for(cfg, all2.len(), |i, r| one(r, &all2[i])));
    // planted: every length 0..=L, first nul at every position (none, one, or a second nul later), non-zero
    // filler with the high bit set or clear - block/word-wise nul searches have their cases at 8/16/32
    let maxl = cfg.by(20, 80, 200);
    rep.merge(par_for(cfg, maxl + 1, |l, r| {
        for fill in [b'a', 0x80u8, 0xFF, 0x01] {
            let base = vec![fill; l];
            one(r, &base);
            for p in 0..l {
                if cfg.miri() && !(p % 8 <= 1 || p + 1 == l) {
                    continue;
                }
                let mut b = base.clone();
                b[p] = 0;
                one(r, &b);
                if p + 1 < l {
                    let mut b2 = b.clone();
                    b2[l - 1] = 0;
                    one(r, &b2);
                    let mut b3 = b.clone();
                    b3[p + 1] = 0;
                    one(r, &b3);
                }
            }
        }
        r.ev("planted-nul");
    }));
    let nrand = cfg.by(5, 2000, 20000);
    rep.merge(par_for(cfg, nrand, |i, r| {
        let mut rng = Rng::new(cfg.seed.wrapping_mul(2_147_483_647).wrapping_add(i as u64));
        let n = rng.below(if i % 8 == 7 { cfg.by(40, 300, 300) } else { cfg.by(12, 40, 40) });
        let mut b: Vec<u8> = (0..n).map(|_| if rng.chance(1, 6) { 0 } else { (rng.next() & 0xFF) as u8 }).collect();
        if rng.chance(1, 2) {
            b.push(0);
        }
        one(r, &b);
        if i == 0 {
            r.sample(|| format!("random bytes={:?}", b));
        }
    }));
    (
        "C20",
        rep,
        format!("all {} byte strings of length <= {} over {{0,'a',0xFF}}; all {} over {{0,0xC3,0xB1,'x',0xE5}}; {} seeded random byte strings; planted: every length 0..={} x filler {{'a',0x80,0xFF,0x01}} x first nul at every position (alone, + last byte nul, + next byte nul)", all.len(), cfg.by(4, 6, 8), all2.len(), nrand, maxl),
        "one evaluation = one konst::ffi::cstr call compared with core::ffi::CStr (from_bytes_until_nul / from_bytes_with_nul succeed iff std's do and give an equal &CStr that borrows from the input; to_bytes, to_bytes_with_nul by value and address, to_str incl. valid_up_to / error_len of its Utf8Error); the constructors' error variants are not compared; non-trivial = distinct inputs of length >= 2 containing a nul".into(),
    )
}
