//! C03 – string slicing agrees with std str indexing, including char-boundary rules.
use crate::common::*;
use konst::string as kstr;

pub const SIGMA4: [&str; 4] = ["a", "ñ", "個", "🙂"];
pub const WIDE: [&str; 14] = ["a", "z", "\u{80}", "\u{7ff}", "\u{800}", "\u{ffff}", "\u{10000}", "\u{10ffff}", "e\u{301}", "ñ", "個", "🙂", " ", "\0"];

/// reference for the clamping variants, written from the statement:
/// indices beyond the length are treated as the length; panic exactly when an in-range
/// index falls inside a multi-byte character.
fn ref_range(s: &str, start: usize, end: usize) -> Result<&str, ()> {
    let len = s.len();
    if (start < len && !s.is_char_boundary(start)) || (end < len && !s.is_char_boundary(end)) {
        return Err(());
    }
    let (a, b) = (start.min(len), end.min(len));
    if a <= b {
        Ok(&s[a..b])
    } else {
        Ok("")
    }
}

fn show(x: &Result<&str, ()>) -> String {
    match x {
        Ok(s) => format!("{:?}", s),
        Err(()) => "<panic>".into(),
    }
}

fn cmp_res(r: &mut Report, api: &'static str, s: &str, args: (usize, usize), got: Result<&str, ()>, want: Result<&str, ()>, value_specified: bool) {
    let ok = match (&got, &want) {
        (Err(()), Err(())) => true,
        (Ok(g), Ok(w)) => {
            if value_specified {
                g == w && (g.is_empty() || off_in(s, g) == off_in(s, w))
            } else {
                true
            }
        }
        _ => false,
    };
    if !ok {
        r.fail(api, api, format!("s={:?} args={:?}", s, args), show(&got), show(&want));
    }
}

fn check_string(r: &mut Report, s: &str) {
    let len = s.len();
    let idx = hostile_indices(len, 1);
    for &i in &idx {
        // predicate
        let g = kstr::is_char_boundary(s, i);
        let w = s.is_char_boundary(i);
        r.ev(if w { "is_char_boundary:true" } else { "is_char_boundary:false" });
        r.eq("is_char_boundary", || format!("s={:?} i={}", s, i), &g, &w);
        // fallible getters
        let g = kstr::get_from(s, i);
        if let Some(x) = g {
            mon_sub_str(r, "string::get_from", s, x);
        }
        let w = s.get(i..);
        r.ev(if w.is_some() { "get_from:Some" } else { "get_from:None" });
        r.eq("get_from", || format!("s={:?} from={}", s, i), &g, &w);
        let g = kstr::get_up_to(s, i);
        if let Some(x) = g {
            mon_sub_str(r, "string::get_up_to", s, x);
        }
        let w = s.get(..i);
        r.ev(if w.is_some() { "get_up_to:Some" } else { "get_up_to:None" });
        r.eq("get_up_to", || format!("s={:?} len={}", s, i), &g, &w);
        // clamping variants
        let g = catch(|| kstr::str_from(s, i));
        if let Ok(x) = g {
            mon_sub_str(r, "string::str_from", s, x);
        }
        let w = ref_range(s, i, usize::MAX);
        r.ev(match (&w, i <= len) {
            (Err(_), _) => "str_from:panic",
            (Ok(_), true) => "str_from:in-range",
            _ => "str_from:clamped",
        });
        cmp_res(r, "str_from", s, (i, 0), g, w, true);
        let g = catch(|| kstr::str_up_to(s, i));
        if let Ok(x) = g {
            mon_sub_str(r, "string::str_up_to", s, x);
        }
        let w = ref_range(s, 0, i);
        r.ev(match (&w, i <= len) {
            (Err(_), _) => "str_up_to:panic",
            (Ok(_), true) => "str_up_to:in-range",
            _ => "str_up_to:clamped",
        });
        cmp_res(r, "str_up_to", s, (0, i), g, w, true);
        // split_at
        let g = catch(|| kstr::split_at(s, i));
        let w: Result<(&str, &str), ()> = if i < len && !s.is_char_boundary(i) {
            Err(())
        } else if i <= len {
            Ok(s.split_at(i))
        } else {
            Ok((s, ""))
        };
        r.ev(match (&w, i <= len) {
            (Err(_), _) => "split_at:panic",
            (Ok(_), true) => "split_at:in-range",
            _ => "split_at:clamped",
        });
        if let Ok((a, b)) = g {
            mon_sub_str(r, "string::split_at.0", s, a);
            mon_sub_str(r, "string::split_at.1", s, b);
        }
        if g != w {
            r.fail("split_at", "split_at", format!("s={:?} at={}", s, i), format!("{:?}", g), format!("{:?}", w));
        }
        if i > 0 && i < len {
            r.nt(&(s, i));
        }
        for &j in &idx {
            let g = kstr::get_range(s, i, j);
            if let Some(x) = g {
                mon_sub_str(r, "string::get_range", s, x);
            }
            let w = s.get(i..j);
            r.ev(if w.is_some() { "get_range:Some" } else { "get_range:None" });
            r.eq("get_range", || format!("s={:?} start={} end={}", s, i, j), &g, &w);
            let g = catch(|| kstr::str_range(s, i, j));
            if let Ok(x) = g {
                mon_sub_str(r, "string::str_range", s, x);
            }
            let w = ref_range(s, i, j);
            let (ci, cj) = (i.min(len), j.min(len));
            r.ev(match (&w, ci <= cj) {
                (Err(_), _) => "str_range:panic",
                (Ok(_), true) => "str_range:start<=end",
                _ => "str_range:start>end",
            });
            // the value for start > end is not fixed by the property (only: no panic, valid, inside)
            cmp_res(r, "str_range", s, (i, j), g, w, ci <= cj);
            if i < j && j <= len && s.len() > s.chars().count() {
                r.nt(&(s, i, j));
            }
        }
    }
}

pub fn run(cfg: &Cfg) -> (&'static str, Report, String, String) {
    let maxc = cfg.by(2, 4, 5);
    let strings = strings_upto(&SIGMA4, maxc);
    let mut rep = par_for(cfg, strings.len(), |i, r| {
        check_string(r, &strings[i]);
        if i == 37 {
            r.sample(|| format!("s={:?} all indices/pairs from {:?}...", strings[i], &hostile_indices(strings[i].len(), 1)[..5]));
        }
    });
    // every lead-byte class: all strings of <= 2 (miri: 1) chars over LEADS + LEADS_HI3
    let mut la: Vec<&str> = LEADS.to_vec();
    la.extend(LEADS_HI3);
    la.extend(ASCII_EDGES);
    let lstrings = strings_upto(&la, cfg.by(1, 2, 3));
    rep.merge(par_for(cfg, lstrings.len(), |i, r| check_string(r, &lstrings[i])));
    let nrand = cfg.by(10, 300, 4000);
    let rnd = par_for(cfg, nrand, |i, r| {
        let mut rng = Rng::new(cfg.seed.wrapping_mul(1_000_003).wrapping_add(i as u64));
        let s = random_string(&mut rng, &WIDE, if i % 8 == 7 { cfg.by(20, 200, 300) } else { cfg.by(6, 24, 40) });
        let len = s.len();
        // random strings are long: sample index pairs instead of the full square
        let idx = hostile_indices(len, 1);
        let mut sub: Vec<usize> = Vec::new();
        for _ in 0..12 {
            sub.push(*rng.pick(&idx));
        }
        check_random(r, &s, &sub);
        if i == 0 {
            r.sample(|| format!("random s={:?} indices={:?}", s, sub));
        }
    });
    rep.merge(rnd);
    (
        "C03",
        rep,
        format!("all {} strings of <= {} chars over {{a,ñ,個,🙂}} x all indices and (start,end) pairs from I(len); + {} seeded random strings over a wider alphabet with sampled index pairs", strings.len(), maxc, nrand),
        "one evaluation = one konst string-slicing call (is_char_boundary, get_from, get_up_to, get_range, str_from, str_up_to, str_range, split_at) compared with str::get / is_char_boundary / split_at and the clamp-or-panic rule; panics observed with catch_unwind; every returned &str goes through the C01 boundary monitor; non-trivial = distinct (string,start,end) with a proper non-empty range of a string containing a multi-byte char, or an interior split point".into(),
    )
}

fn check_random(r: &mut Report, s: &str, idx: &[usize]) {
    let len = s.len();
    for &i in idx {
        let g = kstr::is_char_boundary(s, i);
        r.ev(if s.is_char_boundary(i) { "is_char_boundary:true" } else { "is_char_boundary:false" });
        r.eq("is_char_boundary", || format!("s={:?} i={}", s, i), &g, &s.is_char_boundary(i));
        let g = kstr::get_from(s, i);
        r.ev(if s.get(i..).is_some() { "get_from:Some" } else { "get_from:None" });
        r.eq("get_from", || format!("s={:?} from={}", s, i), &g, &s.get(i..));
        let g = kstr::get_up_to(s, i);
        r.ev(if s.get(..i).is_some() { "get_up_to:Some" } else { "get_up_to:None" });
        r.eq("get_up_to", || format!("s={:?} len={}", s, i), &g, &s.get(..i));
        for &j in idx {
            let g = kstr::get_range(s, i, j);
            if let Some(x) = g {
                mon_sub_str(r, "string::get_range", s, x);
            }
            r.ev(if s.get(i..j).is_some() { "get_range:Some" } else { "get_range:None" });
            r.eq("get_range", || format!("s={:?} start={} end={}", s, i, j), &g, &s.get(i..j));
            let g = catch(|| kstr::str_range(s, i, j));
            if let Ok(x) = g {
                mon_sub_str(r, "string::str_range", s, x);
            }
            let w = ref_range(s, i, j);
            let (ci, cj) = (i.min(len), j.min(len));
            r.ev(match (&w, ci <= cj) {
                (Err(_), _) => "str_range:panic",
                (Ok(_), true) => "str_range:start<=end",
                _ => "str_range:start>end",
            });
            cmp_res(r, "str_range", s, (i, j), g, w, ci <= cj);
            if i < j && j <= len {
                r.nt(&(s, i, j));
            }
        }
    }
}
