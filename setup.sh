#!/bin/bash
# Run once after a fresh restore (offline): pre-build the harness variants and the Miri sysroot so
# that the checks only have to do incremental work. Every check re-invokes cargo, so it always
# sees /repo's current working tree.
set -u
export CARGO_NET_OFFLINE=true
cd "$(dirname "$0")"
mkdir -p target work evidence
(cd harness && CARGO_TARGET_DIR=../target/h cargo build --offline --release && CARGO_TARGET_DIR=../target/h cargo build --offline && CARGO_TARGET_DIR=../target/hd cargo build --offline --features konst_debug) || exit 1
(cd harness && CARGO_TARGET_DIR=../target/miri cargo +nightly miri setup && MIRIFLAGS=-Zmiri-disable-isolation CARGO_TARGET_DIR=../target/miri cargo +nightly miri run --offline -q -- c01 --tier miri --out ../work/setup-miri.json) || echo "setup: Miri warm-up failed (checks that need Miri will report INCONCLUSIVE)"
exit 0
